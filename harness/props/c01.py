"""C01 -- A commit records exactly the selected working-tree state (tie H).

Three kinds of cases:
  hist   a history of 1-4 commits on a real 2a working tree; each commit is preceded by working-tree
         operations and made with specific_files / exclude; the model (coq/Model/CommitSel.v) replays
         the same operations on abstract trees.
  fex    commit.filter_excluded on explicit (old path, new path) pairs (exhaustive small domain).
  fault  one commit with an exception injected at one step of Commit.commit's pipeline.
"""
import itertools
import os
import shutil
import tempfile

from vlib import Tag, Err, coq_list, coq_N, coq_bool, coq_nat

PROP = "C01"
COQ = {
    "property_file": "Properties/C01.v",
    "imports": "From BV Require Import Lib.Tree01 Model.CommitSel.",
}
META = {
    "level": "proof",
    "title": "A commit records exactly the selected working-tree state",
    "technique": ("Coq theorems over a hand model of commit.py's change filtering, record_iter_changes' delta construction "
                  "and the commit pipeline's failure handling + correspondence on real 2a working trees (histories of "
                  "partial commits, fault injection at every pipeline step)"),
    "level_text": ("Partial (P-core). Proved for all trees/selections: the committed tree is the basis with the working-tree "
                   "entry substituted exactly for the ids whose change reaches the builder; under the executable guard "
                   "selection_closed that set is exactly the ids whose old or new path is inside specific_files and outside "
                   "exclude; selected ids are clean afterwards and unselected changes stay pending; a successful result is a "
                   "valid tree; an exception up to and including builder.commit leaves revisions/tip/basis untouched. "
                   "Machine-checked refutations: a rename across the exclude boundary is silently not committed; an "
                   "exception after builder.commit (pre_commit hook, tip-change veto, master update) leaves the new revision "
                   "in the repository; a failure after the tip update leaves the tip moved."),
    "level_note": ("Trusted: Coq kernel, vm_compute; the hand model's correspondence (bounded sampling); the environment "
                   "models of dirstate iter_changes(specific_files) and CHKInventory.create_by_apply_delta (bzrformats, "
                   "outside /repo) which are validated only by the same correspondence run. Not modelled: merges "
                   "(multi-parent commits), content filters, nested trees, directories changing kind or going missing, "
                   "per-file last-changed revisions (C02)."),
    "design_ref": "DESIGN.md §5 C01",
    "trusted_base": ["hand model coq/Model/CommitSel.v of breezy/commit.py + vf_repository.record_iter_changes",
                     "environment model of bzrformats dirstate iter_changes(specific_files) and CHKInventory.create_by_apply_delta",
                     "correspondence harness harness/props/c01.py"],
    "assumptions": ["single-parent commits (no pending merges), 2a format, file system supports symlinks",
                    "dirstate iter_changes(specific_files) = closure of the search set under moved entries + parent directories "
                    "(coq: iter_changes); CHKInventory.create_by_apply_delta accepts a delta iff the result is a valid tree whose "
                    "paths match the delta (coq: apply_delta) -- both exercised by every hist case",
                    "directories never change kind and never go missing in the generated working trees"],
    "rule": ("hist: op sequences (add/mkdir/symlink/modify/chmod/rename incl. across directories/remove/rm/kind change) over "
             "<= 12 ids, every subset of top-level paths plus deeper and unversioned paths as specific_files, random exclude; "
             "non-trivial = a commit succeeded with a partial selection and at least one pending change"),
}
SHARD = 40
_state = {"n": 0}
NAMES = "abcdefgh"

# ----------------------------------------------------------------------------------------------
# paths and Coq printing


def _segs(p):
    return [s for s in p.split("/") if s] if p else []


def _tok(seg):
    b = seg.encode("ascii")
    if len(b) == 1:
        return b[0]
    if len(b) == 2:
        return b[0] * 256 + b[1]
    raise ValueError(seg)


def coq_path(p):
    return coq_list([coq_N(_tok(s)) for s in _segs(p)]) if _segs(p) else "(@nil name)"


def coq_opath(p):
    return "None" if p is None else "(Some %s)" % coq_path(p)


def coq_op(o):
    k = o[0]
    if k == "mkdir":
        return f"OMkdir {coq_path(o[1])} {coq_N(o[2])}"
    if k == "addfile":
        return f"OAddFile {coq_path(o[1])} {coq_N(o[2])} {coq_N(o[3])} {coq_bool(o[4])}"
    if k == "symlink":
        return f"OSymlink {coq_path(o[1])} {coq_N(o[2])} {coq_N(o[3])}"
    if k == "modify":
        return f"OModify {coq_path(o[1])} {coq_N(o[2])}"
    if k == "chmod":
        return f"OChmod {coq_path(o[1])} {coq_bool(o[2])}"
    if k == "rename":
        return f"ORename {coq_path(o[1])} {coq_path(o[2])}"
    if k == "remove":
        return f"ORemove {coq_path(o[1])}"
    if k == "rm":
        return f"ORm {coq_path(o[1])}"
    if k == "kind":
        return f"OKind {coq_path(o[1])} {'KFile' if o[2] == 'file' else 'KLink'} {coq_N(o[3])}"
    raise ValueError(o)


def model_term(inp):
    if inp["kind"] == "hist":
        steps = []
        for s in inp["steps"]:
            sel = "None" if s["sel"] is None else "(Some %s)" % coq_list([coq_path(p) for p in s["sel"]])
            steps.append("(mkS %s %s %s)" % (coq_list([coq_op(o) for o in s["ops"]]), sel,
                                              coq_list([coq_path(p) for p in s["excl"]])))
        return "run_case " + coq_list(steps)
    if inp["kind"] == "fex":
        return "run_filter_excluded %s %s" % (
            coq_list([coq_path(p) for p in inp["excl"]]),
            coq_list(["(%s, %s)" % (coq_opath(a), coq_opath(b)) for a, b in inp["changes"]]))
    if inp["kind"] == "fault":
        if inp["point"] == "none":
            return "run_fault_case %s 99%%nat" % coq_bool(inp["bound"])
        return "run_fault_case %s (index_of %s %s)" % (coq_bool(inp["bound"]), POINTS[inp["point"]], coq_bool(inp["bound"]))
    raise ValueError(inp["kind"])


POINTS = {"get_builder": "PGetBuilder", "started": "PStarted", "record": "PRecord", "pointless": "PPointless",
          "finish_inv": "PFinishInv", "message": "PMessage", "builder_commit": "PBuilderCommit",
          "pre_commit": "PPreCommitHook", "master_update": "PMasterUpdate", "set_tip": "PSetTip",
          "tip_hooks": "PTipHooks", "unversion": "PUnversion", "update_basis": "PUpdateBasis",
          "post_commit": "PPostHook", "none": "PPostHook"}

# ----------------------------------------------------------------------------------------------
# the real working tree


def setup(scratch):
    _state["dir"] = scratch
    _init()


def _init():
    if _state.get("init"):
        return
    os.environ.setdefault("BRZ_EMAIL", "verif <verif@example.com>")
    import breezy
    import breezy.bzr  # noqa
    from breezy import trace
    trace.be_quiet(True)
    _state["init"] = True


def _scratch():
    d = _state.get("dir")
    if not d or not os.path.isdir(d):
        d = tempfile.mkdtemp(prefix="verif-C01-lazy-")
        _state["dir"] = d
        import atexit
        atexit.register(shutil.rmtree, d, True)
    return d


def teardown():
    pass


def _fid(n):
    return b"i%d" % n


def _unfid(b):
    return int(b[1:])


def _mk_tree(base):
    from breezy import controldir
    f = controldir.format_registry.make_controldir("2a")
    wt = controldir.ControlDir.create_standalone_workingtree(base, format=f)
    wt.set_root_id(_fid(0))
    return wt


def _apply_op(wt, op):
    """Apply one operation if its precondition holds on the real tree (otherwise a no-op, as in the model)."""
    k = op[0]
    base = wt.basedir

    def ab(p):
        return os.path.join(base, p)

    def present(p):
        return wt.is_versioned(p) and os.path.lexists(ab(p))

    def isdir(p):
        return os.path.isdir(ab(p)) and not os.path.islink(ab(p))

    def free(p):
        if p == "":
            return False
        d = os.path.dirname(p)
        return present(d) and isdir(d) and not os.path.lexists(ab(p)) and not wt.is_versioned(p)

    def fresh(n):
        try:
            wt.id2path(_fid(n))
        except Exception as e:  # noqa
            if type(e).__name__ == "NoSuchId":
                return True
            raise
        return False

    if k == "mkdir":
        if free(op[1]) and fresh(op[2]):
            os.mkdir(ab(op[1]))
            wt.add([op[1]], ["directory"], [_fid(op[2])])
    elif k == "addfile":
        if free(op[1]) and fresh(op[2]):
            with open(ab(op[1]), "wb") as f:
                f.write(b"c%d\n" % op[3])
            os.chmod(ab(op[1]), 0o755 if op[4] else 0o644)
            wt.add([op[1]], ["file"], [_fid(op[2])])
    elif k == "symlink":
        if free(op[1]) and fresh(op[2]):
            os.symlink("t%d" % op[3], ab(op[1]))
            wt.add([op[1]], ["symlink"], [_fid(op[2])])
    elif k == "modify":
        p = op[1]
        if present(p) and not isdir(p):
            if os.path.islink(ab(p)):
                os.unlink(ab(p))
                os.symlink("t%d" % op[2], ab(p))
            else:
                with open(ab(p), "wb") as f:
                    f.write(b"c%d\n" % op[2])
    elif k == "chmod":
        p = op[1]
        if present(p) and os.path.isfile(ab(p)) and not os.path.islink(ab(p)):
            os.chmod(ab(p), 0o755 if op[2] else 0o644)
    elif k == "rename":
        p, q = op[1], op[2]
        if p != "" and present(p) and free(q) and not (q + "/").startswith(p + "/"):
            wt.rename_one(p, q)
    elif k == "remove":
        p = op[1]
        if p != "" and present(p):
            wt.remove([p], keep_files=False, force=True)
    elif k == "rm":
        p = op[1]
        if p != "" and present(p) and not isdir(p):
            os.unlink(ab(p))
    elif k == "kind":
        p = op[1]
        if present(p) and not isdir(p):
            os.unlink(ab(p))
            if op[2] == "file":
                with open(ab(p), "wb") as f:
                    f.write(b"c%d\n" % op[3])
            else:
                os.symlink("t%d" % op[3], ab(p))
    else:
        raise ValueError(op)


def _tok_of(data, prefix):
    s = data.decode("ascii") if isinstance(data, bytes) else data
    s = s.strip()
    if not s.startswith(prefix):
        raise ValueError("unexpected content %r" % (data,))
    return int(s[1:])


def _rev_listing(t):
    """{id: (path, parent, name, kind, content, exec)} of a revision tree."""
    out = {}
    with t.lock_read():
        for path, ie in t.iter_entries_by_dir():
            k = ie.kind
            if k == "file":
                c = _tok_of(t.get_file_text(path), "c")
            elif k == "symlink":
                c = _tok_of(t.get_symlink_target(path), "t")
            else:
                c = 0
            out[_unfid(ie.file_id)] = (path, None if ie.parent_id is None else _unfid(ie.parent_id), ie.name, k, c,
                                       bool(ie.executable) if k == "file" else False)
    return out


def _wt_listing(wt):
    """{id: (path, parent, name, kind|None (missing), content, exec)} of the working tree as it is on disk."""
    out = {}
    with wt.lock_read():
        for path, ie in wt.iter_entries_by_dir():
            ap = os.path.join(wt.basedir, path)
            if not os.path.lexists(ap):
                k, c, x = None, 0, False
            elif os.path.islink(ap):
                k, c, x = "symlink", _tok_of(os.readlink(ap), "t"), False
            elif os.path.isdir(ap):
                k, c, x = "directory", 0, False
            else:
                with open(ap, "rb") as f:
                    k, c = "file", _tok_of(f.read(), "c")
                x = bool(os.stat(ap).st_mode & 0o100)
            out[_unfid(ie.file_id)] = (path, None if ie.parent_id is None else _unfid(ie.parent_id), ie.name, k, c, x)
    return out


def _changes(wt):
    """wt.iter_changes(basis) canonicalised, sorted by id."""
    out = []
    with wt.lock_read():
        b = wt.basis_tree()
        with b.lock_read():
            for c in wt.iter_changes(b):
                out.append([_unfid(c.file_id), c.path[0], c.path[1],
                            None if c.kind[0] is None else Tag(c.kind[0]), None if c.kind[1] is None else Tag(c.kind[1]),
                            bool(c.changed_content),
                            None if not c.versioned[0] else bool(c.executable[0]),
                            None if not c.versioned[1] else bool(c.executable[1])])
    out.sort(key=lambda r: r[0])
    return out


def _listing_obs(lst):
    return [[i, lst[i][0], Tag(lst[i][3]), lst[i][4], lst[i][5]] for i in sorted(lst)]


# ---- the specification evaluated in Python on observed trees (used by the oracle) --------------


def _inside(d, p):
    return d == p or d == "" or p.startswith(d + "/")


def _inside_any(ds, p):
    return p is not None and any(_inside(d, p) for d in ds)


def _entry_of(x):
    """the comparable entry (parent, name, kind, content, exec) of a listing row"""
    return None if x is None else (x[1], x[2], x[3], x[4], x[5])


def _committed(x):
    if x is None or x[3] is None:
        return None
    return (x[1], x[2], x[3], x[4], x[5] if x[3] == "file" else False)


def _py_selection_closed(basis, wt, sel, excl):
    """mirror of coq selection_closed, evaluated on the observed trees"""
    S = [""] if sel is None else list(sel)
    idsall = sorted(set(basis) | set(wt))

    def oldp(i):
        return basis[i][0] if i in basis else None

    def newp(i):
        return wt[i][0] if i in wt else None

    def changed(i):
        return _entry_of(basis.get(i)) != _entry_of(wt.get(i))

    def hit(i):
        return _inside_any(S, oldp(i)) or _inside_any(S, newp(i))

    for i in idsall:
        o, n = oldp(i), newp(i)
        if o is not None and n is not None:
            if _inside_any(S, o) != _inside_any(S, n) or _inside_any(excl, o) != _inside_any(excl, n):
                return False

    def good(q):
        for i in idsall:
            if oldp(i) == q or newp(i) == q:
                if not (hit(i) or (not changed(i) and oldp(i) == newp(i))):
                    return False
        return True

    for i in idsall:
        if changed(i) and hit(i) and newp(i) is not None:
            segs = _segs(newp(i))
            for k in range(len(segs)):
                if not good("/".join(segs[:k])):
                    return False
    return True


def _run_hist(inp):
    from breezy import errors
    from bzrformats import errors as bferrors
    _init()
    _state["n"] += 1
    base = os.path.join(_scratch(), "h%d" % _state["n"])
    os.mkdir(base)
    try:
        wt = _mk_tree(base)
        repo = wt.branch.repository
        out = []
        for si, s in enumerate(inp["steps"]):
            with wt.lock_tree_write():
                for o in s["ops"]:
                    _apply_op(wt, o)
            basis = _rev_listing(wt.basis_tree())
            wtl = _wt_listing(wt)
            pre = _changes(wt)
            revno0, tip0 = wt.branch.last_revision_info()
            nrev0 = len(repo.all_revision_ids())
            closed = _py_selection_closed(basis, wtl, s["sel"], s["excl"])
            rid = b"rev-%d" % (si + 1)
            try:
                got = wt.commit("m", rev_id=rid, specific_files=s["sel"], exclude=(s["excl"] or None))
                status = Tag("ok")
            except errors.PathsNotVersionedError:
                status = Err("PathsNotVersionedError")
            except (errors.BzrError, bferrors.BzrFormatsError, AssertionError) as e:
                n = type(e).__name__
                status = Err("InconsistentDelta" if n in ("InconsistentDelta", "InconsistentDeltaDelta", "RootMissing") else n)
            revno1, tip1 = wt.branch.last_revision_info()
            newb = _rev_listing(wt.basis_tree())
            post = _changes(wt)
            model_part = [status, _listing_obs(newb), post, revno1, closed]
            extras = [
                _listing_obs(basis),
                [[i] + list(wtl[i][:1]) + [None if wtl[i][3] is None else Tag(wtl[i][3])] + list(wtl[i][4:]) for i in sorted(wtl)],
                pre,
                # bookkeeping facts for the oracle
                [revno0, revno1, tip1 == rid, tip1 == tip0, wt.last_revision() == tip1,
                 len(repo.all_revision_ids()) - nrev0, bool(repo.is_in_write_group()),
                 repo.has_revision(rid)],
                # full entries (parent, name) for the substitution check
                [[i, basis[i][1], basis[i][2]] for i in sorted(basis)],
                [[i, wtl[i][1], wtl[i][2]] for i in sorted(wtl)],
                [[i, newb[i][1], newb[i][2]] for i in sorted(newb)],
            ]
            out.append([model_part, extras])
        return out
    finally:
        shutil.rmtree(base, ignore_errors=True)


class _P:
    def __init__(self, a, b):
        self.path = (a, b)


def _run_fex(inp):
    _init()
    from breezy.commit import filter_excluded
    chs = [_P(a, b) for a, b in inp["changes"]]
    for i, c in enumerate(chs):
        c.idx = i
    return [c.idx for c in filter_excluded(iter(chs), list(inp["excl"]))]


class _Boom(Exception):
    pass


def _run_fault(inp):
    """One commit with an exception injected at the named pipeline step."""
    _init()
    from unittest import mock
    from breezy import errors
    from breezy.branch import Branch
    from breezy.bzr import vf_repository
    from breezy.commit import NullCommitReporter, PointlessCommit
    point, bound = inp["point"], inp["bound"]
    _state["n"] += 1
    base = os.path.join(_scratch(), "f%d" % _state["n"])
    os.mkdir(base)
    hooks = []
    try:
        mwt = _mk_tree(os.path.join(base, "m") if bound else base)
        with mwt.lock_tree_write():
            for o in (("mkdir", "a", 1), ("addfile", "a/f", 2, 1, False), ("addfile", "g", 3, 1, False)):
                _apply_op(mwt, o)
        mwt.commit("one", rev_id=b"r1")
        if bound:
            wt = mwt.branch.create_checkout(os.path.join(base, "l"), lightweight=False)
        else:
            wt = mwt
        if point != "pointless":
            with wt.lock_tree_write():
                _apply_op(wt, ("modify", "a/f", 2))
                _apply_op(wt, ("rm", "g"))
        local_base = wt.branch.base
        kw = {}
        patches = []

        def boom(*a, **k):
            raise _Boom(point)

        class Rep(NullCommitReporter):
            def started(self, *a):
                if point == "started":
                    boom()

            def is_verbose(self):
                return True

            def snapshot_change(self, *a):
                if point == "record":
                    boom()

        if point in ("started", "record"):
            kw["reporter"] = Rep()
        if point == "pointless":
            kw["allow_pointless"] = False
        if point == "message":
            kw["message_callback"] = boom
        if point == "get_builder":
            patches.append(mock.patch.object(type(wt.branch), "get_commit_builder", boom))
        if point == "finish_inv":
            patches.append(mock.patch.object(vf_repository.VersionedFileCommitBuilder, "finish_inventory", boom))
        if point == "builder_commit":
            patches.append(mock.patch.object(vf_repository.VersionedFileCommitBuilder, "commit", boom))
        if point == "master_update":
            patches.append(mock.patch.object(Branch, "import_last_revision_info_and_tags", boom))
        if point == "unversion":
            patches.append(mock.patch.object(type(wt), "unversion", boom))
        if point == "update_basis":
            patches.append(mock.patch.object(type(wt), "update_basis_by_delta", boom))
        if point == "pre_commit":
            hooks.append(("pre_commit", boom))
        if point == "post_commit":
            hooks.append(("post_commit", boom))
        if point == "set_tip":
            def veto(params):
                if params.branch.base == local_base:
                    raise errors.TipChangeRejected("vetoed")
            hooks.append(("pre_change_branch_tip", veto))
        if point == "tip_hooks":
            def after(params):
                if params.branch.base == local_base:
                    boom()
            hooks.append(("post_change_branch_tip", after))
        for hn, fn in hooks:
            Branch.hooks.install_named_hook(hn, fn, "verif-c01")
        for p in patches:
            p.start()
        exc = None
        # the caller holds the tree lock around commit() (as cmd_commit does), so that the final unlock --
        # which aborts a leftover write group as a safety net -- does not hide a missing builder.abort()
        wt.lock_write()
        try:
            try:
                if "message_callback" in kw:
                    wt.commit(rev_id=b"r2", **kw)
                else:
                    wt.commit("two", rev_id=b"r2", **kw)
            except (_Boom, errors.TipChangeRejected, PointlessCommit) as e:
                exc = type(e).__name__
            finally:
                for p in patches:
                    p.stop()
                for hn, fn in hooks:
                    Branch.hooks.uninstall_named_hook(hn, "verif-c01")
                hooks = []
            wg_inside = bool(wt.branch.repository.is_in_write_group())
        finally:
            wt.unlock()
        repo = wt.branch.repository
        mb = Branch.open(mwt.branch.base)
        model_part = [exc is not None, bool(repo.has_revision(b"r2")), wt.branch.last_revision() == b"r2",
                      bound and mb.last_revision() == b"r2", wt.last_revision() == b"r2",
                      wg_inside or bool(repo.is_in_write_group())]
        # a later plain commit must still work (no leaked write group / lock)
        try:
            with wt.lock_tree_write():
                _apply_op(wt, ("addfile", "z", 9, 1, False))
            wt.commit("three", rev_id=b"r3")
            later = Tag("ok")
        except Exception as e:  # noqa
            later = Err(type(e).__name__)
        return [model_part, [exc, later]]
    finally:
        from breezy.branch import Branch as B2
        for hn, fn in hooks:
            try:
                B2.hooks.uninstall_named_hook(hn, "verif-c01")
            except Exception:  # noqa
                pass
        shutil.rmtree(base, ignore_errors=True)


def impl(inp):
    if inp["kind"] == "hist":
        return _run_hist(inp)
    if inp["kind"] == "fex":
        return _run_fex(inp)
    if inp["kind"] == "fault":
        return _run_fault(inp)
    raise ValueError(inp["kind"])


def impl_obs(inp, obs):
    if isinstance(obs, Err):
        return obs
    if inp["kind"] == "hist":
        return [s[0] for s in obs]
    if inp["kind"] == "fault":
        return obs[0]
    return obs


# ----------------------------------------------------------------------------------------------
# the property itself, on the implementation


def _rows(listing, pn):
    """{id: (path, parent, name, kind, content, exec)} from the observation lists"""
    pn = {r[0]: (r[1], r[2]) for r in pn}
    return {r[0]: (r[1], pn[r[0]][0], pn[r[0]][1], None if r[2] is None else str(r[2]), r[3], r[4]) for r in listing}


def _valid(tree):
    if not tree:
        return "empty tree"
    paths = {}
    for i, x in tree.items():
        if x[0] in paths:
            return "two ids at path %r" % x[0]
        paths[x[0]] = i
    for i, x in tree.items():
        if x[0] == "":
            if x[3] != "directory":
                return "root not a directory"
            continue
        par = tree.get(x[1])
        if par is None or par[3] != "directory":
            return "parent of %r is not a directory of the tree" % x[0]
        if x[0] != (par[0] + "/" if par[0] else "") + x[2]:
            return "path of %r does not follow its parent" % x[0]
    return None


def _oracle_step(s, step):
    model_part, ex = step
    status, newl, post, revno1, closed = model_part
    basisl, wtll, pre, book, bpn, wpn, npn = ex
    revno0, revno1b, tip_is_new, tip_same, wtbasis_is_tip, drevs, wg, has_new = book
    basis = _rows(basisl, bpn)
    wt = _rows(wtll, wpn)
    new = _rows(newl, npn)
    if wg:
        return "write group left open"
    if not wtbasis_is_tip:
        return "working tree basis differs from the branch tip after the commit call"
    if isinstance(status, Err):
        if not tip_same or revno1 != revno0:
            return "commit raised %s but the tip moved" % status
        if drevs != 0 or has_new:
            return "commit raised %s but the repository gained a revision" % status
        if new != basis:
            return "commit raised but the basis tree changed"
        if post != pre:
            return "commit raised but the working tree's pending changes differ"
        return None
    if not tip_is_new or revno1 != revno0 + 1 or drevs != 1 or not has_new:
        return "successful commit: tip/revno/revision set not advanced by exactly the new revision"
    v = _valid(new)
    if v:
        return "committed tree invalid: " + v
    S = [""] if s["sel"] is None else s["sel"]
    excl = s["excl"]
    committed_ids = set()
    for i in sorted(set(basis) | set(wt) | set(new)):
        b, w, n = _committed(basis.get(i)), _committed(wt.get(i)), _committed(new.get(i))
        op_ = basis[i][0] if i in basis else None
        np_ = wt[i][0] if i in wt else None
        if n != b and n != w:
            return "id %d: committed entry %r is neither the basis entry nor the working-tree entry" % (i, n)
        sel = _inside_any(S, op_) or _inside_any(S, np_)
        oe, ne = _inside_any(excl, op_), _inside_any(excl, np_)
        ends = [e for e, p in ((oe, op_), (ne, np_)) if p is not None]
        if sel and not any(ends):
            if n != w:
                return "selected id %d (%r -> %r) was not committed" % (i, op_, np_)
        elif all(ends):
            if n != b:
                return "excluded id %d (%r -> %r) was committed" % (i, op_, np_)
        elif sel:
            # one end excluded, the other end is a selected, not excluded path
            if n != w:
                return "exclude-crossing: id %d (%r -> %r) has a selected path that is not excluded but was not committed" % (i, op_, np_)
        if not sel and closed and n != b:
            return "selection closed, yet unselected id %d (%r -> %r) was committed" % (i, op_, np_)
        if n == w and (n != b or (sel and not any(ends))):
            committed_ids.add(i)
    # afterwards: committed ids are clean, the other pending changes are still pending
    postd = {r[0]: r for r in post}
    pred = {r[0]: r for r in pre}
    for i in sorted(set(basis) | set(wt)):
        b, w = _committed(basis.get(i)), _committed(wt.get(i))
        raw_changed = _entry_of(basis.get(i)) != _entry_of(wt.get(i))
        if i in committed_ids:
            if i in postd:
                return "id %d was committed but the working tree still reports a change for it" % i
        elif raw_changed:
            if i not in postd:
                if not closed and _committed(new.get(i)) == w:
                    continue      # pulled in by a rename across the selection boundary (an added-then-missing id)
                return "pending change of unselected id %d vanished" % i
            if postd[i][2:] != pred[i][2:]:
                return "pending change of unselected id %d altered: %r -> %r" % (i, pred[i], postd[i])
    return None


def oracle(inp, obs):
    if isinstance(obs, Err):
        return None
    if inp["kind"] == "hist":
        for k, (s, step) in enumerate(zip(inp["steps"], obs)):
            v = _oracle_step(s, step)
            if v:
                return "commit %d: %s" % (k + 1, v)
        return None
    if inp["kind"] == "fex":
        # a change survives iff neither end is excluded
        want = [k for k, (a, b) in enumerate(inp["changes"])
                if not (_inside_any(inp["excl"], a) or _inside_any(inp["excl"], b))]
        return None if obs == want else "filter_excluded kept %r, expected %r" % (obs, want)
    if inp["kind"] == "fault":
        (raised, has_rev, tip_new, mtip_new, wtb_new, wg), (exc, later) = obs
        if wg:
            return "write group left open after %s" % inp["point"]
        tail = "" if later == "ok" else "; a later plain commit fails with %s" % later
        if raised:
            if tip_new or mtip_new:
                return "tip-moved: commit raised %s at %s but a branch tip moved to the new revision%s" % (exc, inp["point"], tail)
            if has_rev:
                return "late-failure: commit raised %s at %s; the new revision is in the repository although the tip is unchanged%s" % (exc, inp["point"], tail)
            if wtb_new:
                return "commit raised but the working tree basis moved"
        else:
            if not (has_rev and tip_new and wtb_new):
                return "commit returned normally but is incomplete"
        if tail:
            return tail[2:]
        return None
    return None


def _crossing_ids(s, step):
    ex = step[1]
    basis = _rows(ex[0], ex[4])
    wt = _rows(ex[1], ex[5])
    out = []
    for i in set(basis) & set(wt):
        if _inside_any(s["excl"], basis[i][0]) != _inside_any(s["excl"], wt[i][0]):
            out.append(i)
    return out


def finding_matches(fid, inp, obs, why):
    if isinstance(obs, Err):
        return False
    if fid == "C01-exclude-crossing-rename-dropped":
        if inp["kind"] != "hist" or "exclude-crossing" not in (why or ""):
            return False
        return any(s["excl"] and _crossing_ids(s, step) for s, step in zip(inp["steps"], obs))
    if fid == "C01-revision-stays-after-late-failure":
        return inp["kind"] == "fault" and "late-failure" in (why or "") and \
            (inp["point"] in ("pre_commit", "master_update") or (inp["point"] == "set_tip" and not inp["bound"]))
    if fid == "C01-tip-moved-although-commit-raised":
        return inp["kind"] == "fault" and inp["point"] in ("set_tip", "tip_hooks", "unversion", "update_basis", "post_commit") and \
            "tip-moved" in (why or "")
    return False


def nontrivial(inp, obs):
    if isinstance(obs, Err):
        return False
    if inp["kind"] == "hist":
        return any(step[0][0] == "ok" and (s["sel"] is not None or s["excl"]) and step[1][2]
                   for s, step in zip(inp["steps"], obs))
    if inp["kind"] == "fex":
        return 0 < len(obs) < len(inp["changes"])
    return True


def distribution(inputs, observations):
    d = {"hist": 0, "fex": 0, "fault": 0, "commits": 0, "commits_ok": 0, "commits_err": 0, "partial_ok": 0,
         "closed": 0, "not_closed": 0, "with_exclude": 0, "post_pending": 0}
    ops = {}
    for inp, o in zip(inputs, observations):
        d[inp["kind"]] += 1
        if inp["kind"] != "hist" or isinstance(o, Err):
            continue
        for s, step in zip(inp["steps"], o):
            d["commits"] += 1
            ok = step[0][0] == "ok"
            d["commits_ok" if ok else "commits_err"] += 1
            if ok and (s["sel"] is not None or s["excl"]):
                d["partial_ok"] += 1
            d["closed" if step[0][4] else "not_closed"] += 1
            if s["excl"]:
                d["with_exclude"] += 1
            if ok and step[0][2]:
                d["post_pending"] += 1
            for op in s["ops"]:
                ops[op[0]] = ops.get(op[0], 0) + 1
    d["ops"] = ops
    return d


# ----------------------------------------------------------------------------------------------
# generator


class Shadow:
    """Approximate mirror of the working tree used only to generate mostly-valid operations."""

    def __init__(self):
        self.e = {0: [None, "", "directory", False]}     # id -> [parent, name, kind, missing]
        self.next = 1

    def path(self, i):
        segs = []
        while i != 0:
            segs.append(self.e[i][1])
            i = self.e[i][0]
        return "/".join(reversed(segs))

    def paths(self, pred=lambda i, x: True):
        return [self.path(i) for i, x in self.e.items() if i != 0 and pred(i, x)]

    def by_path(self, p):
        for i in self.e:
            if self.path(i) == p:
                return i
        return None

    def dirs(self):
        return [""] + self.paths(lambda i, x: x[2] == "directory" and not x[3])

    def free_name(self, d, rng):
        di = self.by_path(d)
        used = {x[1] for x in self.e.values() if x[0] == di}
        cand = [n for n in NAMES if n not in used]
        return rng.choice(cand) if cand else None

    def join(self, d, n):
        return (d + "/" if d else "") + n

    def gen_op(self, rng):
        live = [i for i, x in self.e.items() if i != 0 and not x[3]]
        files = [i for i in live if self.e[i][2] != "directory"]
        r = rng.random()
        if r < 0.22 or not live:
            d = rng.choice(self.dirs())
            n = self.free_name(d, rng)
            if n is None:
                return None
            p = self.join(d, n)
            i = self.next
            self.next += 1
            k = rng.choice(["addfile", "addfile", "mkdir", "symlink"])
            self.e[i] = [self.by_path(d), n, {"addfile": "file", "mkdir": "directory", "symlink": "symlink"}[k], False]
            if k == "mkdir":
                return ["mkdir", p, i]
            if k == "addfile":
                return ["addfile", p, i, rng.randint(1, 3), rng.random() < 0.3]
            return ["symlink", p, i, rng.randint(1, 3)]
        if r < 0.40 and files:
            return ["modify", self.path(rng.choice(files)), rng.randint(1, 4)]
        if r < 0.47 and files:
            return ["chmod", self.path(rng.choice(files)), rng.random() < 0.5]
        if r < 0.75:
            i = rng.choice(live)
            p = self.path(i)
            targets = [d for d in self.dirs() if not (d + "/").startswith(p + "/")]
            d = rng.choice(targets)
            n = self.free_name(d, rng)
            if n is None:
                return None
            if rng.random() < 0.3 and self.e[i][1] not in {x[1] for x in self.e.values() if x[0] == self.by_path(d)}:
                n = self.e[i][1]
            self.e[i][0], self.e[i][1] = self.by_path(d), n
            return ["rename", p, self.join(d, n)]
        if r < 0.83:
            i = rng.choice(live)
            p = self.path(i)
            for j in [j for j in list(self.e) if j != 0 and (self.path(j) + "/").startswith(p + "/")]:
                if j != i:
                    del self.e[j]
            del self.e[i]
            return ["remove", p]
        if r < 0.91 and files:
            i = rng.choice(files)
            self.e[i][3] = True
            return ["rm", self.path(i)]
        if files:
            i = rng.choice(files)
            k = rng.choice(["file", "symlink"])
            self.e[i][2] = k
            return ["kind", self.path(i), k, rng.randint(1, 3)]
        return None


def _gen_sel(sh, old_paths, rng):
    tops = sorted({p.split("/")[0] for p in sh.paths() + old_paths if p})
    allp = sorted(set(sh.paths() + old_paths))
    r = rng.random()
    if r < 0.25 or not tops:
        sel = None
    elif r < 0.65:
        sel = [t for t in tops if rng.random() < 0.5]
    elif r < 0.93:
        sel = rng.sample(allp, min(len(allp), rng.randint(1, 2)))
    elif r < 0.97:
        sel = [rng.choice(allp), "zz"]
    else:
        sel = []
    r = rng.random()
    if r < 0.6 or not allp:
        excl = []
    else:
        excl = rng.sample(allp, 1)
    return sel, excl


def _gen_hist(rng, nsteps=None):
    sh = Shadow()
    steps = []
    old_paths = []
    for k in range(nsteps or rng.randint(1, 4)):
        ops = []
        for _ in range(rng.randint(3, 7) if k == 0 else rng.randint(1, 5)):
            o = sh.gen_op(rng)
            if o:
                ops.append(o)
        if k == 0 and rng.random() < 0.7:
            sel, excl = None, []
        else:
            sel, excl = _gen_sel(sh, old_paths, rng)
        steps.append({"ops": ops, "sel": sel, "excl": excl})
        old_paths = sorted(set(old_paths + sh.paths()))[:20]
    return {"kind": "hist", "steps": steps}


BASE_OPS = [["mkdir", "a", 1], ["mkdir", "b", 2], ["mkdir", "c", 3], ["mkdir", "a/d", 4], ["addfile", "a/d/x", 5, 1, False],
            ["addfile", "a/d/y", 6, 1, True], ["addfile", "c/z", 7, 1, False], ["addfile", "a/f", 8, 1, False],
            ["symlink", "b/l", 9, 1]]

SCENARIOS = [
    # directory moved across top-level dirs, a child moved out, another file moved in
    [["rename", "a/d/y", "c/y"], ["rename", "a/d", "b/d"], ["rename", "c/z", "b/d/z"]],
    # parent renamed, child modified
    [["rename", "a", "e"], ["modify", "e/f", 2], ["chmod", "e/d/x", True]],
    # new nested directories and a name swap
    [["mkdir", "b/n", 10], ["mkdir", "b/n/m", 11], ["addfile", "b/n/m/f", 12, 1, False],
     ["rename", "a/d/x", "a/d/t"], ["rename", "a/d/y", "a/d/x"], ["rename", "a/d/t", "a/d/y"]],
    # removals, a missing file, a kind change, a replaced path
    [["remove", "a/d"], ["rm", "c/z"], ["kind", "a/f", "symlink", 2], ["rename", "b/l", "c/l"], ["addfile", "b/l", 13, 2, False]],
    # path vacated and re-occupied by a new directory
    [["rename", "a", "e"], ["mkdir", "a", 14], ["mkdir", "a/d", 15], ["addfile", "a/d/f", 16, 1, False], ["modify", "e/d/y", 3]],
    # cycle-prone double move
    [["rename", "a/d", "d"], ["rename", "a", "d/a"], ["modify", "d/a/f", 2]],
]


def _scenario_cases(rng, tier):
    for sc in SCENARIOS:
        tops = ["a", "b", "c", "d", "e"]
        tops = [t for t in tops if t in "abc" or any(o[-1] == t or (isinstance(o[1], str) and o[1].split("/")[0] == t) or
                                                      (len(o) > 2 and isinstance(o[2], str) and o[2].split("/")[0] == t)
                                                      for o in sc)]
        subsets = []
        for n in range(len(tops) + 1):
            subsets += [list(c) for c in itertools.combinations(tops, n)]
        for sub in subsets:
            yield {"kind": "hist", "steps": [{"ops": BASE_OPS, "sel": None, "excl": []},
                                             {"ops": sc, "sel": sub, "excl": []},
                                             {"ops": [], "sel": None, "excl": []}]}
        deep = ["a/d", "a/d/x", "b/d", "e/f", "b/n/m/f", "a/d/f", "c/l", "b/l", "d/a", "a/f", "c/y", "c/z"]
        for p in deep:
            yield {"kind": "hist", "steps": [{"ops": BASE_OPS, "sel": None, "excl": []},
                                             {"ops": sc, "sel": [p], "excl": []}]}
        for ex in (["a"], ["b"], ["c"], ["a/d"], ["a/d/x"], ["e"], ["b/l"], ["d"]):
            yield {"kind": "hist", "steps": [{"ops": BASE_OPS, "sel": None, "excl": []},
                                             {"ops": sc, "sel": None, "excl": ex},
                                             {"ops": [], "sel": None, "excl": []}]}


FAULT_POINTS = ["none", "get_builder", "started", "record", "pointless", "finish_inv", "message", "builder_commit",
                "pre_commit", "set_tip", "tip_hooks", "unversion", "update_basis", "post_commit"]


def _fault_cases():
    for b in (False, True):
        for p in FAULT_POINTS + (["master_update"] if b else []):
            yield {"kind": "fault", "point": p, "bound": b}


def _fex_cases(rng, tier):
    paths = [None, "a", "a/b", "b", "ab", "a/b/c"]
    excls = [[], ["a"], ["a/b"], ["b"], ["ab"], ["a", "b"], [""], ["a/b/c", "b"]]
    pairs = [(x, y) for x in paths for y in paths if not (x is None and y is None)]
    for ex in excls:
        # every single change, then every ordered pair from a sample, then triples
        yield {"kind": "fex", "excl": ex, "changes": [list(p) for p in pairs]}
        for _ in range(6 if tier == "quick" else 60):
            yield {"kind": "fex", "excl": ex, "changes": [list(rng.choice(pairs)) for _ in range(3)]}


def corpus():
    out = []
    # witnesses of the findings / refutations
    out.append({"kind": "hist", "steps": [{"ops": BASE_OPS, "sel": None, "excl": []},
                                          {"ops": [["rename", "c/z", "b/z"]], "sel": None, "excl": ["c"]}]})
    out.append({"kind": "hist", "steps": [{"ops": BASE_OPS, "sel": None, "excl": []},
                                          {"ops": [["rename", "c/z", "b/z"]], "sel": None, "excl": ["b"]}]})
    out.append({"kind": "hist", "steps": [{"ops": BASE_OPS, "sel": None, "excl": []},
                                          {"ops": SCENARIOS[0], "sel": ["b"], "excl": []}]})
    out.extend(_fault_cases())
    return out


def cases(rng, tier):
    yield from _fex_cases(rng, tier)
    sc = list(_scenario_cases(rng, tier))
    if tier == "quick":
        # all subsets of top-level paths for every scenario, a sample of the rest
        keep = [c for c in sc if len(c["steps"]) == 3 and not c["steps"][1]["excl"]]
        rest = [c for c in sc if c not in keep]
        rng.shuffle(rest)
        yield from keep
        yield from rest[:30]
    else:
        yield from sc
    for _ in range(120 if tier == "quick" else 1500):
        yield _gen_hist(rng)


def shrink(inp, fails):
    if inp["kind"] != "hist":
        return inp
    cur = inp
    changed = True
    while changed:
        changed = False
        steps = cur["steps"]
        for k in range(len(steps) - 1, -1, -1):
            for j in range(len(steps[k]["ops"]) - 1, -1, -1):
                cand = {"kind": "hist", "steps": [dict(s) for s in steps]}
                cand["steps"][k] = dict(steps[k], ops=steps[k]["ops"][:j] + steps[k]["ops"][j + 1:])
                try:
                    if fails(cand):
                        cur, steps, changed = cand, cand["steps"], True
                except Exception:  # noqa
                    pass
        if len(steps) > 1:
            cand = {"kind": "hist", "steps": steps[:-1]}
            try:
                if fails(cand):
                    cur, changed = cand, True
            except Exception:  # noqa
                pass
    return cur
