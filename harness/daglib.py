"""Revision graphs shared by the history properties (companion of coq/Lib/Dag.v).

A graph is a list of parent lists: entry i = parents of revision i, left-hand
parent first; a parent p of i is either < i or a ghost (p >= len(g)).  The same
value is printed as a Coq term (coq_dag) and materialised in a real breezy
repository (build_history): revision i becomes revision id b"r<i>".

The small reference functions below (ancestors, lefthand, ...) are used by the
property ORACLES only (they are the property's vocabulary evaluated on the
implementation's observation); the Coq model has its own definitions.
"""
import os

GHOST_BASE = 40   # ghost ids are n + GHOST_BASE + j: never collide with later revisions


def rid(i):
    return b"r%d" % i


def idx(revid):
    """b"r12" -> 12, b"r12.3" -> 12 (3rd re-creation of revision 12 in a reused repository),
    b"null:" -> None."""
    if revid in (b"null:", None):
        return None
    if not revid.startswith(b"r"):
        raise ValueError("foreign revision id %r" % (revid,))
    return int(revid[1:].split(b".")[0])


# ---- reference graph functions (oracle vocabulary) -------------------------

def parents(g, r):
    return g[r] if 0 <= r < len(g) else []


def is_ghost(g, r):
    return r >= len(g)


def ancestors(g, seeds):
    seen, todo = set(), list(seeds)
    while todo:
        r = todo.pop()
        if r in seen:
            continue
        seen.add(r)
        todo.extend(parents(g, r))
    return seen


def is_ancestor(g, a, b):
    return a in ancestors(g, [b])


def lefthand(g, r):
    out = [r]
    while not is_ghost(g, r) and g[r]:
        r = g[r][0]
        out.append(r)
    return out


def lefthand_present(g, r):
    return all(not is_ghost(g, x) for x in lefthand(g, r))


def revno_of(g, r):
    """Length of the left-hand history; None for null is 0; None if a ghost is met."""
    if r is None:
        return 0
    return len(lefthand(g, r)) if lefthand_present(g, r) else None


def heads(g, keys):
    ks = set(keys)
    return {k for k in ks if not any(k2 != k and is_ancestor(g, k, k2) for k2 in ks)}


def wf(g):
    n = len(g)
    return all((p < i or p >= n) and len(set(ps)) == len(ps) for i, ps in enumerate(g) for p in ps)


# ---- generator ---------------------------------------------------------------

def gen_dag(rng, n, p_merge=0.35, p_ghost=0.08, p_left_ghost=0.04, p_root=0.04):
    """A random well-formed history with n revisions: mostly one mainline with side
    branches, merges (2-3 parents), criss-cross, a few ghosts, rarely extra roots."""
    g = []
    nghost = 0
    for i in range(n):
        if i == 0 or rng.random() < p_root:
            ps = []
        else:
            # left parent: recent revisions preferred
            left = i - 1 if rng.random() < 0.55 else rng.randrange(max(0, i - 4), i)
            ps = [left]
            if rng.random() < p_merge and i >= 2:
                k = 1 if rng.random() < 0.75 else 2
                pool = [x for x in range(max(0, i - 6), i) if x != left]
                rng.shuffle(pool)
                ps.extend(pool[:k])
            if rng.random() < p_ghost:
                ps.append(n + GHOST_BASE + nghost)
                nghost += 1
        if rng.random() < p_left_ghost:
            ps = [n + GHOST_BASE + nghost] + ps[1:]
            nghost += 1
        g.append(ps)
    return g


def coq_dag(g):
    return "[" + "; ".join("[" + "; ".join(str(p) for p in ps) + "]" for ps in g) + "]"


# ---- materialisation in breezy -------------------------------------------------

def build_history(g, transport, with_file=True, extra=None):
    """Create a 2a branch on `transport` containing exactly the graph g.

    Returns the branch (its tip is whatever was committed last; callers set it).
    `extra` may map a revision index to a list of additional BranchBuilder actions.
    Raises AssertionError if the repository's parent map differs from g."""
    import breezy.bzr  # noqa: F401
    from breezy import branchbuilder
    n = len(g)
    bb = branchbuilder.BranchBuilder(transport, format="2a")
    br = bb.get_branch()
    for i, ps in enumerate(g):
        pids = [rid(p) for p in ps]
        fresh_root = (not ps) or ps[0] >= n
        if fresh_root:
            acts = [("add", ("", b"root-id", "directory", None))]
            if with_file:
                acts.append(("add", ("f", b"f-id", "file", b"0\n")))
        else:
            acts = [("modify", ("f", b"%d\n" % i))] if with_file else []
        if ps:
            # Put the branch on the left-hand parent ourselves: BranchBuilder cannot move
            # the pointer onto a revision with a ghost on its left-hand history (nor onto a
            # ghost: then the branch must be empty).  The revno is a placeholder; callers
            # set branch tips themselves.
            br.lock_write()
            try:
                if ps[0] >= n:
                    br.set_last_revision_info(0, b"null:")
                else:
                    br.set_last_revision_info(len([x for x in lefthand(g, ps[0]) if x < n]), rid(ps[0]))
            finally:
                br.unlock()
        if extra and i in extra:
            acts = acts + list(extra[i])
        bb.build_snapshot(pids, acts, revision_id=rid(i), allow_leftmost_as_ghost=True)
    br = bb.get_branch()
    br.lock_read()
    try:
        pm = br.repository.get_graph().get_parent_map([rid(i) for i in range(n)])
    finally:
        br.unlock()
    for i, ps in enumerate(g):
        got = [p for p in pm.get(rid(i), ()) if p != b"null:"]
        if got != [rid(p) for p in ps]:
            raise AssertionError("history not materialised as given: r%d has %r, wanted %r" % (i, got, ps))
    return br
