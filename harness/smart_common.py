"""Shared drivers/generators for C29 and C30 (smart protocol codecs, breezy/bzr/smart/protocol.py).

Level A (model in lock-step): the real encoders byte for byte, the real
LengthPrefixedBodyDecoder / ChunkedBodyDecoder / ProtocolThreeDecoder fed an
explicit segmentation or a hint-driven read loop, observing next_read_size(),
finished, decoded data and unused_data after every accept_bytes.
Level B (oracle only): whole requests and responses of protocol versions 1, 2, 3
through the real client protocol classes, SmartSimplePipesClientMedium,
SmartServerPipeStreamMedium and a registered echo request, over real os.pipe()s
read through a reader that reports an over-sized read instead of hanging.
"""
import io
import os

from vlib import Tag, Err, coq_bytes, coq_list, coq_nat, coq_bool, coq_option, coq_N

# ------------------------------------------------------------------ helpers

def cut(lens, stream):
    out, pos = [], 0
    for n in lens:
        out.append(stream[pos:pos + n])
        pos += n
    if pos < len(stream):
        out.append(stream[pos:])
    return out


def _P():
    import breezy.bzr  # noqa: F401
    from breezy.bzr.smart import protocol
    return protocol


def coq_lens(lens):
    return coq_list(lens, coq_nat)


def coq_pol(pol):
    return coq_list(pol, coq_N)


def coq_bytes_list(bs):
    return coq_list([coq_bytes(b) for b in bs])


# ------------------------------------------------- level A: LengthPrefixed

LP_FAILED = [0, False, b"", b"", True]


def ident(b):
    return b


def lp_trace(stream, lens, ob=ident):
    P = _P()
    d = P.LengthPrefixedBodyDecoder()

    def o():
        return [d.next_read_size(), bool(d.finished_reading), ob(d.read_pending_data()), ob(d.unused_data), False]
    out = [o()]
    failed = False
    for seg in cut(lens, stream):
        if not failed:
            try:
                d.accept_bytes(seg)
            except ValueError:
                failed = True
        out.append([0, False, ob(b""), ob(b""), True] if failed else o())
    return out


def impl_lp(inp):
    P = _P()
    enc = P.SmartProtocolBase()._encode_bulk_data(inp["body"])
    return [enc, lp_trace(enc + inp["tail"], inp["lens"])]


# ------------------------------------------------------- level A: Chunked

def ck_trace(stream, lens, ob=ident):
    P = _P()
    from breezy.bzr.smart import request
    from dromedary import errors as terrors
    d = P.ChunkedBodyDecoder()
    chunks, err = [], [None]

    def o():
        while True:
            c = d.read_next_chunk()
            if c is None:
                break
            if isinstance(c, request.FailedSmartServerResponse):
                err[0] = list(c.args)
            else:
                chunks.append(c)
        return [d.next_read_size(), bool(d.finished_reading), [ob(c) for c in chunks],
                None if err[0] is None else [ob(a) for a in err[0]], ob(d.unused_data)]
    out = [o()]
    failed = None
    for seg in cut(lens, stream):
        if failed is None:
            try:
                d.accept_bytes(seg)
            except terrors.SmartProtocolError:
                failed = Err("SmartProtocolError")
            except ValueError:
                failed = Err("ValueError")
        out.append(failed if failed is not None else o())
    return out


def real_encode_stream(chunks, err):
    P = _P()
    from breezy.bzr.smart import request
    items = list(chunks)
    if err is not None:
        items.append(request.FailedSmartServerResponse(tuple(err)))
        items.append(b"never sent")          # _send_chunks returns at the failure
    buf = []
    P._send_stream(iter(items), buf.append)
    return b"".join(buf)


def impl_ck(inp):
    enc = real_encode_stream(inp["chunks"], inp["err"])
    return [enc, ck_trace(enc + inp["tail"], inp["lens"])]


# ---------------------------------------------------- level A: protocol v3

def bencode(x):
    import fastbencode
    return fastbencode.bencode(x)


class Recorder:
    """A message handler that records the calls made by ProtocolThreeDecoder."""

    def __init__(self):
        self.events = []
        self.error = None

    def headers_received(self, headers):
        self.events.append([Tag("headers"), bencode(headers)])

    def byte_part_received(self, byte):
        self.events.append([Tag("byte"), byte])

    def bytes_part_received(self, b):
        self.events.append([Tag("bytes"), b])

    def structure_part_received(self, s):
        self.events.append([Tag("structure"), bencode(s)])

    def end_received(self):
        self.events.append([Tag("end")])

    def protocol_error(self, exception):
        self.error = type(exception).__name__


def p3_trace(client, stream, lens, ob=ident):
    P = _P()
    h = Recorder()
    d = P.ProtocolThreeDecoder(h, expect_version_marker=client)

    def o():
        if d.decoding_failed:
            return Err(h.error)
        fin = d.state_accept == d._state_accept_reading_unused
        evs = [[e[0], e[1] if e[0] == "byte" else ob(e[1])] if len(e) > 1 else [e[0]] for e in h.events]
        return [d.next_read_size(), fin, evs, ob(d.unused_data)]
    out = [o()]
    for seg in cut(lens, stream):
        if not d.decoding_failed:
            d.accept_bytes(seg)
        out.append(o())
    return out


def real_encode_p3(headers, parts):
    """Drive the real _ProtocolThreeEncoder primitives; returns the message incl. version marker."""
    P = _P()
    buf = []
    e = P._ProtocolThreeEncoder(buf.append)
    e._write_protocol_version()
    e._write_headers(dict(headers))
    for p in parts:
        if p[0] == "o":
            {b"S": e._write_success_status, b"E": e._write_error_status,
             b"C": e._write_chunked_body_start}[p[1]]()
        elif p[0] == "b":
            e._write_prefixed_body(p[1])
        else:
            e._write_structure(tuple(p[1]))
    e._write_end()
    return b"".join(buf)


def impl_p3(inp):
    P = _P()
    enc = real_encode_p3(inp["headers"], inp["parts"])
    stream = enc if inp["client"] else enc[len(P.MESSAGE_VERSION_THREE):]
    return [enc, p3_trace(inp["client"], stream + inp["tail"], inp["lens"])]


def coq_p3_parts(parts):
    out = []
    for p in parts:
        if p[0] == "o":
            out.append(f"POne {p[1][0]}%N")
        elif p[0] == "b":
            out.append(f"PBytes {coq_bytes(p[1])}")
        else:
            out.append(f"PStruct {coq_bytes(bencode(list(p[1])))}")
    return coq_list(out)


def coq_headers(headers):
    return coq_bytes(bencode(dict(headers)))


# --------------------------------------- level A on LARGE messages (RLE + digests)

MAX_READ = 64 * 1024            # medium._MAX_READ_SIZE = osutils.MAX_SOCKET_CHUNK
BUFFER_SIZE = 1024 * 1024       # _ProtocolThreeEncoder.BUFFER_SIZE
# just below / at / above every size threshold of the anchored code, and a few times larger
BIG_SIZES = [MAX_READ - 1, MAX_READ, MAX_READ + 1, BUFFER_SIZE - 60, BUFFER_SIZE - 1, BUFFER_SIZE,
             BUFFER_SIZE + 1, 3 * BUFFER_SIZE + 5]


def expand(rle):
    return b"".join(bytes([b]) * n for b, n in rle)


def hashb(b):
    acc = 0
    for c in b:
        acc = (acc * 31 + c + 1) & 0xFFFFFFFF
    return acc


def dg(b):
    return [len(b), hashb(b)]


def rle_of(n, seed=0):
    """An RLE description of n bytes whose content depends on the position (a misplaced block changes the digest)."""
    out, left, i = [], n, seed
    while left > 0:
        k = min(left, [7, 1000, 65536, 300000][i % 4])
        out.append([97 + i % 23, k])
        left -= k
        i += 1
    return out


def coq_rle(rle):
    return coq_list([f"({b}%N, {n}%N)" for b, n in rle])


def coq_big_parts(parts):
    out = []
    for p in parts:
        if p[0] == "o":
            out.append(f"BOne {p[1][0]}%N")
        elif p[0] == "b":
            out.append(f"BBytes {coq_rle(p[1])}")
        else:
            out.append(f"BStruct {coq_bytes(bencode(list(p[1])))}")
    return coq_list(out)


def _big_p3_parts(parts):
    return [["b", expand(p[1])] if p[0] == "b" else p for p in parts]


def big_stream(inp):
    P = _P()
    if inp["dec"] == "lp":
        return P.SmartProtocolBase()._encode_bulk_data(expand(inp["body"]))
    if inp["dec"] == "ck":
        return real_encode_stream([expand(c) for c in inp["chunks"]], inp["err"])
    return real_encode_p3(inp["headers"], _big_p3_parts(inp["parts"]))


def impl_big(inp):
    P = _P()
    k = inp["kind"]
    enc = big_stream(inp)
    wire = enc
    if inp["dec"] == "p3" and not inp.get("client", True):
        wire = enc[len(P.MESSAGE_VERSION_THREE):]
    if k == "big_enc":
        # real encoder -> real decoder in one piece: the decoded message is the sent message
        tr = {"lp": lp_trace, "ck": ck_trace}.get(inp["dec"])
        last = tr(enc, [], dg)[-1] if tr else p3_trace(True, enc, [], dg)[-1]
        return [dg(enc), last]
    if k == "big_rl":
        if inp["dec"] == "lp":
            d = P.LengthPrefixedBodyDecoder()
            fin = lambda: bool(d.finished_reading)
        elif inp["dec"] == "ck":
            d = P.ChunkedBodyDecoder()
            fin = lambda: bool(d.finished_reading)
        else:
            d = P.ProtocolThreeDecoder(Recorder(), expect_version_marker=inp["client"])
            fin = lambda: d.next_read_size() == 0
        return [dg(wire), rl_run(d.accept_bytes, d.next_read_size, fin, wire, inp["pol"])]
    stream = wire + expand(inp["tail"])
    if inp["dec"] == "lp":
        return [dg(enc), lp_trace(stream, inp["lens"], dg)]
    if inp["dec"] == "ck":
        return [dg(enc), ck_trace(stream, inp["lens"], dg)]
    return [dg(enc), p3_trace(inp["client"], stream, inp["lens"], dg)]


def big_model_term(inp):
    k, d = inp["kind"], inp["dec"]
    if d == "lp":
        msg = coq_rle(inp["body"])
    elif d == "ck":
        msg = f"{coq_list([coq_rle(c) for c in inp['chunks']])} {coq_option(inp['err'], coq_bytes_list)}"
    else:
        msg = f"{coq_headers(inp['headers'])} {coq_big_parts(inp['parts'])}"
    if k == "big_enc":
        # [digest of the encoding; the final observation of the decoder fed the whole encoding]
        one = {"lp": f"run_big_lp {msg} [] []", "ck": f"run_big_ck {msg} [] []",
               "p3": f"run_big_p3 true {msg} [] []"}[d]
        return (f"match {one} with OL [e; OL tr] => OL [e; last tr ON] | o => o end")
    if k == "big_rl":
        cl = f"{coq_bool(inp['client'])} " if d == "p3" else ""
        return f"run_big_rl_{d} {cl}{msg} {coq_list(inp['pol'], coq_N)}"
    cl = f"{coq_bool(inp['client'])} " if d == "p3" else ""
    return f"run_big_{d} {cl}{msg} {coq_rle(inp['tail'])} {coq_list(inp['lens'], coq_N)}"


def capped_policy(inp):
    """The reads of a medium that caps every read at _MAX_READ_SIZE, as a policy list for rl_amount
    (derived once from the real decoder's hints: 0 = the full hint, 65536 = 65536 bytes when hint > 65535)."""
    P = _P()
    wire = big_stream(inp)
    if inp["dec"] == "p3" and not inp["client"]:
        wire = wire[len(P.MESSAGE_VERSION_THREE):]
    d = {"lp": P.LengthPrefixedBodyDecoder, "ck": P.ChunkedBodyDecoder}.get(inp["dec"])
    d = d() if d else P.ProtocolThreeDecoder(Recorder(), expect_version_marker=inp["client"])
    pol, pos = [], 0
    while pos < len(wire) and len(pol) < 400:
        h = d.next_read_size()
        if h <= 0:
            break
        n = min(h, MAX_READ)
        pol.append(0 if n == h else MAX_READ)
        d.accept_bytes(wire[pos:pos + n])
        pos += n
    return pol + [0, 0]


def big_msg(dec, size, rng=None, client=True, shape=0):
    if dec == "lp":
        return {"dec": "lp", "body": rle_of(size, shape)}
    if dec == "ck":
        chunks = [rle_of(size, shape)] if shape % 2 == 0 else [rle_of(3, 1), rle_of(size, shape), rle_of(0)]
        return {"dec": "ck", "chunks": chunks, "err": None if shape % 3 else [b"error", b"x"]}
    parts = [["s", [b"verb", b"arg"]], ["b", rle_of(size, shape)]] if shape % 2 == 0 else \
        [["o", b"S"], ["s", [b"ok"]], ["b", rle_of(5, 2)], ["b", rle_of(size, shape)], ["o", b"E"], ["s", [b"error"]]]
    return {"dec": "p3", "client": client, "headers": [[b"Software version", b"3.3.0"]], "parts": parts}


def gen_big(rng, tier, hints=False):
    """Level A cases around every size threshold.  Decoder traces use the segments a medium capped at
    _MAX_READ_SIZE delivers; sizes above BUFFER_SIZE+1 are compared through the encoder digest and a
    one-piece decode only (a trace inside Coq would be too slow)."""
    thorough = tier != "quick"
    for dec in ("lp", "ck", "p3"):
        for si, size in enumerate(BIG_SIZES):
            small = size <= MAX_READ + 1
            if not thorough and dec != "p3" and not small and size != BUFFER_SIZE + 1:
                continue                              # no size constant in the v1/v2 codecs themselves
            shapes = (0, 1) if (dec == "p3" or (thorough and small)) and size <= BUFFER_SIZE + 1 else (si % 2,)
            for shape in shapes:
                m = big_msg(dec, size, rng, client=(shape + si) % 2 == 0, shape=shape)
                if size > BUFFER_SIZE + 1:
                    yield dict(m, kind="big_enc")
                    continue
                total = len(big_stream(m))
                tail = rle_of(rng.choice([0, 3]), 5)
                if hints:
                    yield dict(m, kind="big_rl", pol=capped_policy(m))
                    if small:
                        yield dict(m, kind="big_rl", pol=[rng.choice([0, 1, 65536, 40000, 7]) for _ in range(60)] + [0] * 40)
                else:
                    yield dict(m, kind="big", tail=tail, lens=[MAX_READ] * (total // MAX_READ))
                    if small or (thorough and dec == "p3" and shape == 0):
                        yield dict(m, kind="big", tail=tail, lens=[rng.choice([1, MAX_READ - 1, 5, total // 2])
                                                                    for _ in range(4)])
                    yield dict(m, kind="big_enc")


# ------------------------------------------------ level A: hint-driven reads

def rl_run(accept, hint, finished, stream, pol):
    out, pos = [], 0
    pol = list(pol)
    while True:
        if finished():
            return out + [Tag("finished"), len(stream) - pos]
        if not pol:
            return out + [Tag("out-of-policy")]
        k = pol.pop(0)
        h = hint()
        if len(stream) - pos < h:
            return out + [Tag("would-block"), h, len(stream) - pos]
        n = max(0, h if k == 0 else 1 + ((k - 1) % h if h != 0 else k - 1))
        out.append([h, n])
        accept(stream[pos:pos + n])
        pos += n


def rl_stream(inp):
    P = _P()
    if inp["dec"] == "lp":
        return P.SmartProtocolBase()._encode_bulk_data(inp["body"])
    if inp["dec"] == "ck":
        return real_encode_stream(inp["chunks"], inp["err"])
    enc = real_encode_p3(inp["headers"], inp["parts"])
    return enc if inp["client"] else enc[len(P.MESSAGE_VERSION_THREE):]


def impl_rl(inp):
    P = _P()
    stream = rl_stream(inp)
    if inp["dec"] == "lp":
        d = P.LengthPrefixedBodyDecoder()
        fin = lambda: bool(d.finished_reading)          # read_body_bytes' loop test
    elif inp["dec"] == "ck":
        d = P.ChunkedBodyDecoder()
        fin = lambda: bool(d.finished_reading)          # read_streamed_body's loop test
    else:
        d = P.ProtocolThreeDecoder(Recorder(), expect_version_marker=inp["client"])
        fin = lambda: d.next_read_size() == 0           # _read_more / pipe medium test
    return [stream, rl_run(d.accept_bytes, d.next_read_size, fin, stream, inp["pol"])]


def rl_model_term(inp):
    pol = coq_pol(inp["pol"])
    if inp["dec"] == "lp":
        return f"OL [OB (encode_bulk_data {coq_bytes(inp['body'])}); run_rl_lp (encode_bulk_data {coq_bytes(inp['body'])}) {pol}]"
    if inp["dec"] == "ck":
        e = f"(encode_stream {coq_bytes_list(inp['chunks'])} {coq_option(inp['err'], coq_bytes_list)})"
        return f"OL [OB {e}; run_rl_ck {e} {pol}]"
    enc = "p3_encode" if inp["client"] else "p3_encode_body"
    e = f"({enc} {coq_headers(inp['headers'])} {coq_p3_parts(inp['parts'])})"
    return f"OL [OB {e}; run_rl_p3 {coq_bool(inp['client'])} {e} {pol}]"


# --------------------------------------------------- level A: small codecs

def impl_tuple(inp):
    P = _P()
    from dromedary import errors as terrors
    enc = P._encode_tuple(tuple(inp["args"]))
    try:
        dec = P._decode_tuple(enc)
    except terrors.SmartProtocolError:
        return [enc, Err("SmartProtocolError")]
    return [enc, None if dec is None else list(dec)]


def impl_dtuple(inp):
    P = _P()
    from dromedary import errors as terrors
    try:
        dec = P._decode_tuple(inp["line"])
    except terrors.SmartProtocolError:
        return Err("SmartProtocolError")
    return None if dec is None else list(dec)


def _deser(text):
    from breezy.bzr.smart import vfs
    try:
        r = vfs.ReadvRequest._deserialise_offsets(None, text)
    except ValueError:
        return None
    return [[a, b] for a, b in r]


def impl_offsets(inp):
    P = _P()
    offs = [tuple(o) for o in inp["offs"]]
    enc = P.SmartProtocolBase()._serialise_offsets(offs)
    enc3 = P._ProtocolThreeEncoder(lambda b: None)._serialise_offsets(offs)
    if enc3 != enc:
        return Err("DRIVER:v3 _serialise_offsets differs from v1/v2")
    return [enc, _deser(enc)]


def impl_deser(inp):
    return _deser(inp["text"])


def impl_rh(inp):
    """The real ConventionalResponseHandler fed a sequence of parts (lock-step with rh_run)."""
    _P()
    from breezy.bzr.smart import message
    from dromedary import errors as terrors
    h = message.ConventionalResponseHandler()
    try:
        for e in inp["events"]:
            if e[0] == "o":
                h.byte_part_received(e[1])
            elif e[0] == "b":
                h.bytes_part_received(e[1])
            elif e[0] == "s":
                h.structure_part_received(tuple(e[1]))
            elif e[0] == "h":
                h.headers_received({})
            else:
                h.end_received()
    except terrors.SmartProtocolError:
        return Err("SmartProtocolError")
    return [h.status, None if h.args is None else bencode(list(h.args)), list(h._bytes_parts),
            bool(h._body_started), h._body_stream_status,
            None if h._body_error_args is None else bencode(list(h._body_error_args))]


def coq_rh_events(events):
    out = []
    for e in events:
        if e[0] == "o":
            out.append(f"EvByte {e[1][0]}%N")
        elif e[0] == "b":
            out.append(f"EvBytes {coq_bytes(e[1])}")
        elif e[0] == "s":
            out.append(f"EvStruct {coq_bytes(bencode(list(e[1])))}")
        elif e[0] == "h":
            out.append("EvHeaders (@nil N)")
        else:
            out.append("EvEnd")
    return coq_list(out)


def gen_rh(rng, tier):
    """Part sequences for the response handler: every conventional response shape (incl. a stream
    error before the first chunk), then arbitrary sequences (mostly rejected)."""
    shapes = []
    for ok in (b"S", b"E"):
        base = [["h"], ["o", ok], ["s", [b"ok", b"x"]]]
        shapes += [base + [["e"]], base + [["b", b"body"], ["e"]]]
        for nchunks in (0, 1, 3):
            chunks = [["b", bytes([97 + i]) * i] for i in range(nchunks)]
            shapes += [base + chunks + [["e"]], base + chunks + [["o", b"S"], ["e"]],
                       base + chunks + [["o", b"E"], ["s", [b"error", b"boom"]], ["e"]]]
    for ev in shapes:
        yield {"kind": "rh", "events": ev}
    for _ in range(150 if tier == "quick" else 3000):
        ev = []
        for _ in range(rng.randint(0, 7)):
            k = rng.choice("oosbbhe")
            ev.append(["o", rng.choice([b"S", b"E", b"E", b"C"])] if k == "o" else
                      ["s", gen_args(rng)] if k == "s" else ["b", rbytes(rng, rng.randint(0, 3))] if k == "b"
                      else [k])
        yield {"kind": "rh", "events": ev}


# ------------------- client stack under arbitrary reads (socket-like medium)

def _make_response(resp):
    from breezy.bzr.smart import request
    cls = request.SuccessfulSmartServerResponse if resp["ok"] else request.FailedSmartServerResponse
    if resp["kind"] == "none":
        return cls(tuple(resp["args"]))
    if resp["kind"] == "body":
        return cls(tuple(resp["args"]), resp["body"])
    items = list(resp["chunks"])
    if resp["err"] is not None:
        items.append(request.FailedSmartServerResponse(tuple(resp["err"])))
    return request.SuccessfulSmartServerResponse(tuple(resp["args"]), body_stream=iter(items))


def real_encode_response(version, resp):
    """The bytes the real server side writes for a response."""
    P = _P()
    out = []
    if version == 3:
        P.ProtocolThreeResponder(out.append).send_response(_make_response(resp))
    else:
        P.SmartServerRequestProtocolTwo(None, out.append)._send_response(_make_response(resp))
    return b"".join(out)


def impl_cdec(inp):
    """Decode a real response with the real client classes over a medium whose reads return the given
    segments whatever count was asked for (osutils.read_bytes_from_socket returns what has arrived)."""
    P = _P()
    from breezy.bzr.smart import medium, message
    from dromedary import errors as terrors
    resp, v = inp["resp"], inp["version"]
    wire = real_encode_response(v, resp)
    segs = [x for x in cut(inp["lens"], wire) if x]

    class SegMedium(medium.SmartClientStreamMedium):
        def _accept_bytes(self, b):
            pass

        def _flush(self):
            pass

        def _read_bytes(self, count):
            return segs.pop(0) if segs else b""

    req = SegMedium("verif://").get_request()
    req.finished_writing()
    if v == 3:
        handler = message.ConventionalResponseHandler()
        d = P.ProtocolThreeDecoder(handler, expect_version_marker=True)
        handler.setProtoAndMediumRequest(d, req)
    else:
        handler = P.SmartClientRequestProtocolTwo(req)
        handler._last_verb = b"verif.echo"
    res = {"ok": True, "chunks": [], "err": None, "body": None}
    expect_body = resp["kind"] != "none"
    try:
        try:
            res["args"] = list(handler.read_response_tuple(expect_body=expect_body))
        except terrors.ErrorFromSmartServer as e:
            res["args"], res["ok"] = list(e.error_tuple), False
            expect_body = False
        if expect_body and resp["kind"] == "body":
            res["body"] = handler.read_body_bytes()
        elif expect_body:
            try:
                for c in handler.read_streamed_body():
                    if isinstance(c, bytes):
                        res["chunks"].append(c)
                    else:
                        res["err"] = list(c.args)
            except terrors.ErrorFromSmartServer as e:
                res["err"] = list(e.error_tuple)
    except P.SmartMessageHandlerError as e:
        return [wire, Err(type(e.exc_value).__name__)]
    except (terrors.SmartProtocolError, ConnectionResetError) as e:
        return [wire, Err(type(e).__name__)]
    if v == 3:
        fin = d.state_accept == d._state_accept_reading_unused
        parts = ([res["body"]] if res["body"] is not None else res["chunks"])
        return [wire, [fin, handler.status, bencode(list(res["args"])), parts,
                       None if res["err"] is None else bencode(list(res["err"]))]]
    return [wire, [res["ok"], res["args"], res["body"], res["chunks"], res["err"]]]


def cdec_model_term(inp):
    if inp["version"] != 3:
        return None
    import breezy
    resp = inp["resp"]
    hdr = coq_bytes(bencode({b"Software version": breezy.__version__.encode("utf-8")}))
    if resp["kind"] == "none":
        body = "RNone"
    elif resp["kind"] == "body":
        body = f"(RBody {coq_bytes(resp['body'])})"
    else:
        body = f"(RStream {coq_bytes_list(resp['chunks'])} {coq_option(resp['err'], lambda e: coq_bytes(bencode(list(e))))})"
    return (f"run_cdec3 {hdr} {coq_bool(resp['ok'])} {coq_bytes(bencode(list(resp['args'])))} {body} "
            f"{coq_lens(inp['lens'])}")


def oracle_cdec(inp, obs):
    """Whatever the reads, the client decodes the arguments, body / every chunk in order, and the error."""
    resp = inp["resp"]
    got = obs[1]
    if isinstance(got, Err):
        return f"client failed to decode {resp!r} under reads {inp['lens']!r}: {got}"
    if inp["version"] == 3:
        want_parts = [resp["body"]] if resp["kind"] == "body" else list(resp.get("chunks", []))
        if not resp["ok"]:
            want_parts = []                      # the error response is raised before any body is read
        want = [True, b"S" if resp["ok"] else b"E", bencode(list(resp["args"])), want_parts,
                None if resp.get("err") is None else bencode(list(resp["err"]))]
        if resp["ok"] and list(got) != want:
            return f"response {resp!r} read as {inp['lens']!r} decoded to {got!r}, expected {want!r}"
        if not resp["ok"] and list(got[:3]) != want[:3]:
            return f"failed response {resp!r} decoded to {got!r}"
        return None
    want = [resp["ok"], list(resp["args"]), resp.get("body") if resp["ok"] else None,
            list(resp.get("chunks", [])) if resp["ok"] else [], resp.get("err") if resp["ok"] else None]
    if list(got) != want:
        return f"v2 response {resp!r} read as {inp['lens']!r} decoded to {got!r}, expected {want!r}"
    return None


def gen_cdec(rng, tier):
    """Responses (biased to streams that fail after >= 1 chunk) x read segmentations, including the
    whole response in one read and reads that coalesce the last chunk(s) with the error status."""
    n = 120 if tier == "quick" else 3000
    directed = [([b"a"], [b"error", b"x"]), ([b"a", b"bc", b""], [b"error"]), ([b"abc"] * 4, None), ([], [b"error", b"e"])]
    for v in (3, 2):
        for chunks, err in directed:
            resp = {"ok": True, "args": [b"ok"], "kind": "stream", "chunks": chunks, "err": err}
            total = len(real_encode_response(v, resp))
            for lens in ([], [total // 2], [1] * total, [total - 3], [total - 12]):
                yield {"kind": "cdec", "version": v, "resp": resp, "lens": lens}
    for _ in range(n):
        v = rng.choice([3, 3, 2])
        resp = {"ok": rng.random() < 0.9, "args": [b"ok"] + gen_args(rng), "kind": "none"}
        r = rng.random()
        if resp["ok"] and r < 0.2:
            resp.update(kind="body", body=gen_body(rng, 30))
        elif resp["ok"] and r < 0.95:
            chunks = [gen_body(rng, 12) for _ in range(rng.choice([1, 1, 2, 3, 5]))]
            err = [b"error", b"boom"] if rng.random() < 0.7 else None
            resp.update(kind="stream", chunks=chunks, err=err)
        total = len(real_encode_response(v, resp))
        mode = rng.random()
        if mode < 0.3:
            lens = []
        elif mode < 0.5:                         # everything but the last few bytes, then the rest
            lens = [max(0, total - rng.randint(1, 40))]
        else:
            lens = gen_lens(rng, total)
        yield {"kind": "cdec", "version": v, "resp": resp, "lens": lens}


def impl_A(inp):
    k = inp["kind"]
    if k == "cdec":
        return impl_cdec(inp)
    if k in ("big", "big_enc", "big_rl"):
        return impl_big(inp)
    if k == "rh":
        return impl_rh(inp)
    if k == "lp":
        return impl_lp(inp)
    if k == "lp_raw":
        return lp_trace(inp["stream"], inp["lens"])
    if k == "ck":
        return impl_ck(inp)
    if k == "ck_raw":
        return ck_trace(inp["stream"], inp["lens"])
    if k == "p3":
        return impl_p3(inp)
    if k == "p3_raw":
        return p3_trace(inp["client"], inp["stream"], inp["lens"])
    if k == "rl":
        return impl_rl(inp)
    if k == "tuple":
        return impl_tuple(inp)
    if k == "dtuple":
        return impl_dtuple(inp)
    if k == "offsets":
        return impl_offsets(inp)
    if k == "deser":
        return impl_deser(inp)
    raise KeyError(k)


def model_term_A(inp):
    k = inp["kind"]
    if k == "cdec":
        return cdec_model_term(inp)
    if k in ("big", "big_enc", "big_rl"):
        return big_model_term(inp)
    if k == "rh":
        return f"run_rh {coq_rh_events(inp['events'])}"
    if k == "lp":
        return f"run_lp {coq_bytes(inp['body'])} {coq_bytes(inp['tail'])} {coq_lens(inp['lens'])}"
    if k == "lp_raw":
        return f"run_lp_raw {coq_bytes(inp['stream'])} {coq_lens(inp['lens'])}"
    if k == "ck":
        return (f"run_ck {coq_bytes_list(inp['chunks'])} {coq_option(inp['err'], coq_bytes_list)} "
                f"{coq_bytes(inp['tail'])} {coq_lens(inp['lens'])}")
    if k == "ck_raw":
        return f"run_ck_raw {coq_bytes(inp['stream'])} {coq_lens(inp['lens'])}"
    if k == "p3":
        return (f"run_p3 {coq_bool(inp['client'])} {coq_headers(inp['headers'])} {coq_p3_parts(inp['parts'])} "
                f"{coq_bytes(inp['tail'])} {coq_lens(inp['lens'])}")
    if k == "p3_raw":
        return f"run_p3_raw {coq_bool(inp['client'])} {coq_bytes(inp['stream'])} {coq_lens(inp['lens'])}"
    if k == "rl":
        return rl_model_term(inp)
    if k == "tuple":
        return f"run_tuple {coq_bytes_list(inp['args'])}"
    if k == "dtuple":
        return f"run_decode_tuple {coq_bytes(inp['line'])}"
    if k == "offsets":
        return "run_offsets " + coq_list([f"({coq_N(a)}, {coq_N(b)})" for a, b in inp["offs"]])
    if k == "deser":
        return f"run_deser {coq_bytes(inp['text'])}"
    return None            # level B: no model, oracle only


# -------------------------------------------- level B: end to end over pipes

class WouldBlock(Exception):
    def __init__(self, asked, available):
        Exception.__init__(self, f"read({asked}) would block for ever: only {available} bytes will ever arrive")
        self.asked, self.available = asked, available


class PipeReader:
    """file.read(n) semantics of a blocking pipe whose writer has sent everything it
    will send but keeps the pipe open: read(n) returns exactly n bytes, or would
    block for ever.  Instead of hanging, the latter raises WouldBlock."""

    def __init__(self, data, short=None):
        self.reads = []
        self.short = short      # optional list of ints: deliver fewer bytes (socket-like short reads)
        self.mem = None
        self.r = self.w = None
        if len(data) > 60000:
            # more than a pipe buffer holds: same semantics (exactly n bytes or block for ever) in memory
            self.mem, self.pos = data, 0
            return
        self.r, self.w = os.pipe()
        os.set_blocking(self.r, False)
        os.write(self.w, data)

    def read(self, n=-1):
        if n is None or n < 0:
            raise WouldBlock(n, self._avail())
        want = n
        if self.short:
            k = self.short.pop(0)
            want = 1 + k % n if n > 0 else 0
        if self.mem is not None:
            if len(self.mem) - self.pos < want:
                raise WouldBlock(n, len(self.mem) - self.pos)
            got = self.mem[self.pos:self.pos + want]
            self.pos += want
            self.reads.append((n, len(got)))
            return got
        got = b""
        while len(got) < want:
            try:
                b = os.read(self.r, want - len(got))
            except BlockingIOError:
                raise WouldBlock(n, len(got)) from None
            got += b
        self.reads.append((n, len(got)))
        return got

    def _avail(self):
        if self.mem is not None:
            left, self.pos = len(self.mem) - self.pos, len(self.mem)
            return left
        try:
            return len(os.read(self.r, 1 << 16))
        except BlockingIOError:
            return 0

    def leftover(self):
        return self._avail()

    def close(self):
        for fd in (self.r, self.w):
            if fd is None:
                continue
            try:
                os.close(fd)
            except OSError:
                pass


_plan = {}
_registered = []


def register_echo():
    """Register the request verb b"verif.echo" (idempotent)."""
    if _registered:
        return
    from breezy.bzr.smart import request

    class EchoRequest(request.SmartServerRequest):
        def do(self, *args):
            _plan["got_args"] = list(args)
            if _plan["body"] is None:
                return self._respond()
            return None

        def do_body(self, body_bytes):
            _plan["got_body"] = body_bytes
            return self._respond()

        def _respond(self):
            r = _plan["resp"]
            cls = request.SuccessfulSmartServerResponse if r["ok"] else request.FailedSmartServerResponse
            if r["kind"] == "none":
                return cls(tuple(r["args"]))
            if r["kind"] == "body":
                return cls(tuple(r["args"]), r["body"])
            items = list(r["chunks"])
            if r["err"] is not None:
                items.append(request.FailedSmartServerResponse(tuple(r["err"])))
            return request.SuccessfulSmartServerResponse(tuple(r["args"]), body_stream=iter(items))

    request.request_handlers.register(b"verif.echo", EchoRequest, info="read")
    _registered.append(EchoRequest)


def client_encode(version, args, body, offsets):
    """The request bytes written by the real client protocol object."""
    P = _P()
    from breezy.bzr.smart import medium
    out = io.BytesIO()
    m = medium.SmartSimplePipesClientMedium(io.BytesIO(b""), out, "verif://")
    req = m.get_request()
    proto = {1: P.SmartClientRequestProtocolOne, 2: P.SmartClientRequestProtocolTwo,
             3: P.ProtocolThreeRequester}[version](req)
    if version == 3:
        proto.set_headers({b"Software version": b"verif"})
    full = (b"verif.echo",) + tuple(args)
    if offsets is not None:
        proto.call_with_body_readv_array(full, [tuple(o) for o in offsets])
    elif body is None:
        proto.call(*full)
    else:
        proto.call_with_body_bytes(full, body)
    return out.getvalue()


def client_decode(version, data, resp, short=None):
    """Decode response bytes with the real client classes reading from a pipe."""
    P = _P()
    from breezy.bzr.smart import medium, message
    from dromedary import errors as terrors
    rd = PipeReader(data, short)
    try:
        m = medium.SmartSimplePipesClientMedium(rd, io.BytesIO(), "verif://")
        req = m.get_request()
        req.finished_writing()
        expect_body = resp["kind"] != "none"
        result = {}
        if version == 3:
            h = message.ConventionalResponseHandler()
            d = P.ProtocolThreeDecoder(h, expect_version_marker=True)
            h.setProtoAndMediumRequest(d, req)
            handler = h
        else:
            handler = {1: P.SmartClientRequestProtocolOne, 2: P.SmartClientRequestProtocolTwo}[version](req)
            handler._last_verb = b"verif.echo"
        try:
            result["args"] = list(handler.read_response_tuple(expect_body=expect_body))
            result["ok"] = True
        except terrors.ErrorFromSmartServer as e:
            result["args"] = list(e.error_tuple)
            result["ok"] = False
            expect_body = False
        if expect_body and resp["kind"] == "body":
            result["body"] = handler.read_body_bytes()
        elif expect_body and resp["kind"] == "stream":
            chunks = []
            try:
                for c in handler.read_streamed_body():
                    if isinstance(c, bytes):
                        chunks.append(c)
                    else:                     # v2: a FailedSmartServerResponse object is yielded
                        result["err"] = list(c.args)
            except terrors.ErrorFromSmartServer as e:   # v3 raises at the end of the stream
                result["err"] = list(e.error_tuple)
            except P.SmartMessageHandlerError as e:     # the response handler rejected a part
                result["decode_error"] = type(e.exc_value).__name__ + ": " + str(e.exc_value)[:120]
            result["chunks"] = chunks
        result["left"] = 0 if result.get("decode_error") else rd.leftover()
    finally:
        rd.close()
    return result


def _unrle(x):
    return expand(x["rle"]) if isinstance(x, dict) and "rle" in x else x


def norm_e2e(inp):
    """Expand run-length encoded bodies / chunks of an e2e input."""
    out = dict(inp, requests=[])
    for r in inp["requests"]:
        resp = dict(r["resp"])
        if "body" in resp:
            resp["body"] = _unrle(resp["body"])
        if "chunks" in resp:
            resp["chunks"] = [_unrle(c) for c in resp["chunks"]]
        out["requests"].append(dict(r, body=_unrle(r["body"]), resp=resp))
    return out


def small(b):
    """Large byte strings are observed through their digest."""
    if isinstance(b, (bytes, bytearray)) and len(b) > 4096:
        return [Tag("digest")] + dg(bytes(b))
    return b


def impl_e2e(inp):
    register_echo()
    inp = norm_e2e(inp)
    v = inp["version"]
    reqs = inp["requests"]
    try:
        wire = []
        for r in reqs:
            wire.append(client_encode(v, r["args"], r["body"], r.get("offsets")))
        got = []
        # the server serves the requests one after the other from one pipe
        outs = []
        data = b"".join(wire)
        from breezy.bzr.smart import medium
        from dromedary.memory import MemoryTransport
        rd = PipeReader(data, list(inp["short"]) if inp.get("short") else None)
        try:
            out = io.BytesIO()
            sm = medium.SmartServerPipeStreamMedium(rd, out, MemoryTransport(), timeout=5)
            for r in reqs:
                _plan.clear()
                _plan.update(body=(r["body"] if r.get("offsets") is None else b"x"), resp=r["resp"])
                before = out.tell()
                proto = sm._build_protocol()
                sm._serve_one_request_unguarded(proto)
                outs.append(out.getvalue()[before:])
                got.append([_plan.get("got_args"), small(_plan.get("got_body"))])
            left = rd.leftover()
        finally:
            rd.close()
        decoded = []
        for r, o in zip(reqs, outs):
            decoded.append(client_decode(v, o, r["resp"], list(inp["short"]) if inp.get("short") else None))
        for dec in decoded:
            if "body" in dec:
                dec["body"] = small(dec["body"])
            if "chunks" in dec:
                dec["chunks"] = [small(c) for c in dec["chunks"]]
        return {"server_got": got, "server_left": left, "client": decoded}
    except WouldBlock as e:
        return [Tag("would-block"), e.asked, e.available]


# ------------------------------------------------------------- generators

def rbytes(rng, n, alphabet=None):
    if alphabet is None:
        return bytes(rng.randrange(256) for _ in range(n))
    return bytes(rng.choice(alphabet) for _ in range(n))


TRICKY = [b"done\n", b"chunked\n", b"END\n", b"ERR\n", b"0\n", b"\n", b"e", b"\x00\x00\x00\x01", b"5\ndone\n",
          b"bzr message 3 (bzr 1.6)\n", b"oS", b"s\x00\x00\x00\x02le", b"1\n", b"a\n"]


def gen_body(rng, maxlen):
    r = rng.random()
    if r < 0.15:
        return b""
    if r < 0.35:
        return b"".join(rng.choice(TRICKY) for _ in range(rng.randint(1, 3)))[:maxlen]
    if r < 0.5:
        return rbytes(rng, rng.randint(1, 3))
    return rbytes(rng, rng.randint(1, maxlen), None if rng.random() < 0.5 else b"ab\n\x01d0")


def gen_tail(rng):
    r = rng.random()
    if r < 0.35:
        return b""
    if r < 0.6:
        return rng.choice(TRICKY)
    return rbytes(rng, rng.randint(1, 12))


def gen_lens(rng, total):
    """A segmentation of `total` bytes (list of segment lengths; remainder = last segment)."""
    r = rng.random()
    if total == 0 or r < 0.1:
        return []
    if r < 0.3:
        return [1] * total                         # one byte at a time
    if r < 0.5:
        return [rng.randint(0, total)]             # one split point
    out, left = [], total
    while left > 0 and len(out) < 40:
        n = rng.choice([0, 1, 1, 2, 3, 4, 5, 6, 7, 8, rng.randint(1, max(1, left))])
        n = min(n, left)
        out.append(n)
        left -= n
    return out


def gen_chunks(rng, maxlen):
    n = rng.choice([0, 0, 1, 1, 2, 3, 5])
    return [gen_body(rng, maxlen) for _ in range(n)]


def gen_err(rng):
    if rng.random() < 0.5:
        return None
    return [rng.choice([b"error", b"NoSuchFile", b"", b"END", b"x" * 17]) for _ in range(rng.randint(0, 3))]


def gen_args(rng, sep_free=True):
    n = rng.choice([1, 1, 2, 3, 4])
    alpha = b"ab/ .-0\xc3\xa9" if sep_free else b"ab\x01\n/"
    return [rbytes(rng, rng.choice([0, 1, 2, 5]), alpha) for _ in range(n)]


def gen_p3_parts(rng, maxlen):
    """Conventional request/response part sequences and arbitrary ones."""
    r = rng.random()
    args = ["s", gen_args(rng, sep_free=rng.random() < 0.5)]
    if r < 0.25:                                   # request: args [+ body]
        parts = [args] + ([["b", gen_body(rng, maxlen)]] if rng.random() < 0.6 else [])
    elif r < 0.5:                                  # response with body
        parts = [["o", rng.choice([b"S", b"E"])], args] + ([["b", gen_body(rng, maxlen)]] if rng.random() < 0.6 else [])
    elif r < 0.8:                                  # streamed body, maybe cut by an error
        parts = [["o", b"S"], args] + [["b", c] for c in gen_chunks(rng, maxlen)]
        if rng.random() < 0.5:
            parts += [["o", b"E"], ["s", gen_args(rng)]]
        elif r < 0.65:
            parts += [["o", b"S"]]
    else:
        parts = []
        for _ in range(rng.randint(0, 5)):
            k = rng.choice("osb")
            parts.append(["o", rng.choice([b"S", b"E", b"C"])] if k == "o" else
                         ["s", gen_args(rng, False)] if k == "s" else ["b", gen_body(rng, maxlen)])
    return parts


def gen_headers(rng):
    r = rng.random()
    if r < 0.3:
        return []
    if r < 0.8:
        return [[b"Software version", b"3.3.0"]]
    return [[b"a", b""], [b"Software version", rbytes(rng, 3)]]


def p3_encoded_len(inp):
    return len(rl_stream(dict(inp, dec="p3")))


def gen_level_a(rng, tier, hints=False):
    """Yield level A cases; `hints` adds the hint-driven read loops (C30)."""
    P = _P()
    big = tier != "quick"
    maxlen = 60
    # exhaustive: every single split point, then every pair for small bodies
    for body in [b"", b"a", b"done\n", b"0123456789", b"\n\n"]:
        enc = P.SmartProtocolBase()._encode_bulk_data(body)
        for tail in ((b"", b"X", b"done\n") if big else (b"", b"done\n")):
            total = len(enc) + len(tail)
            yield {"kind": "lp", "body": body, "tail": tail, "lens": []}
            yield {"kind": "lp", "body": body, "tail": tail, "lens": [1] * total}
            for i in range(total + 1):
                yield {"kind": "lp", "body": body, "tail": tail, "lens": [i]}
    for chunks, err in [([], None), ([b""], None), ([b"a", b"END\n"], None), ([b"abc"], [b"error", b"x"]),
                        ([], [b"e"]), ([b"x" * 17], []), ([b"0\n", b"ERR\n"], [b""])]:
        enc = real_encode_stream(chunks, err)
        for tail in (b"", b"END\n"):
            total = len(enc) + len(tail)
            yield {"kind": "ck", "chunks": chunks, "err": err, "tail": tail, "lens": [1] * total}
            for i in range(total + 1):
                yield {"kind": "ck", "chunks": chunks, "err": err, "tail": tail, "lens": [i]}
    p3_small = [[["s", [b"hello"]]], [["o", b"S"], ["s", [b"ok", b""]], ["b", b"body"]],
                [["o", b"S"], ["s", [b"ok"]], ["b", b""], ["b", b"ab"], ["o", b"E"], ["s", [b"error", b"x"]]],
                []]
    for client in (False, True):
        for parts in (p3_small if big else p3_small[2:]):
            inp = {"kind": "p3", "client": client, "headers": [[b"Software version", b"1"]], "parts": parts}
            total = p3_encoded_len(inp)
            for tail in ((b"", b"e") if big else (b"e",)):
                yield dict(inp, tail=tail, lens=[1] * (total + len(tail)))
                for i in range(total + len(tail) + 1):
                    yield dict(inp, tail=tail, lens=[i])
    n = 300 if not big else 2500
    for _ in range(n):
        body, tail = gen_body(rng, maxlen), gen_tail(rng)
        total = len(P.SmartProtocolBase()._encode_bulk_data(body)) + len(tail)
        yield {"kind": "lp", "body": body, "tail": tail, "lens": gen_lens(rng, total)}
    for _ in range(n):
        chunks, err, tail = gen_chunks(rng, 30), gen_err(rng), gen_tail(rng)
        total = len(real_encode_stream(chunks, err)) + len(tail)
        yield {"kind": "ck", "chunks": chunks, "err": err, "tail": tail, "lens": gen_lens(rng, total)}
    for _ in range(n):
        inp = {"kind": "p3", "client": rng.random() < 0.5, "headers": gen_headers(rng),
               "parts": gen_p3_parts(rng, 30), "tail": gen_tail(rng)}
        inp["lens"] = gen_lens(rng, p3_encoded_len(inp) + len(inp["tail"]))
        yield inp
    # malformed / arbitrary streams (model domain: see Model/Smart.v header)
    for _ in range(n // 2):
        yield {"kind": "lp_raw", "stream": gen_raw(rng, "lp"), "lens": gen_lens(rng, 20)}
        yield {"kind": "ck_raw", "stream": gen_raw(rng, "ck"), "lens": gen_lens(rng, 20)}
        yield {"kind": "p3_raw", "client": rng.random() < 0.5, "stream": gen_raw(rng, "p3"),
               "lens": gen_lens(rng, 20)}
    if hints:
        for _ in range(n):
            k = rng.choice(["lp", "ck", "p3"])
            inp = {"kind": "rl", "dec": k}
            if k == "lp":
                inp["body"] = gen_body(rng, maxlen)
            elif k == "ck":
                inp.update(chunks=gen_chunks(rng, 30), err=gen_err(rng))
            else:
                inp.update(client=rng.random() < 0.5, headers=gen_headers(rng), parts=gen_p3_parts(rng, 30))
            total = len(rl_stream(inp))
            mode = rng.random()
            if mode < 0.3:
                pol = [1] * (total + 1)                       # always one byte
            elif mode < 0.5:
                pol = [0] * (total + 1)                       # always the full hint (a pipe)
            else:
                pol = [rng.choice([0, 0, 1, 2, 3, 5, rng.randint(0, 300)]) for _ in range(total + 1)]
            inp["pol"] = pol
            yield inp


RAW_ALPHA = b"0123456789abcdefABCDEFghyzDONE\n\x00\xff,:"


def _mutate(rng, s):
    if not s:
        return s
    i = rng.randrange(len(s))
    r = rng.random()
    if r < 0.4:
        return s[:i] + bytes([rng.choice(RAW_ALPHA)]) + s[i + 1:]
    if r < 0.7:
        return s[:i] + s[i + 1:]
    return s[:i] + bytes([rng.choice(RAW_ALPHA)]) + s[i:]


def gen_raw(rng, kind):
    """A valid message with a few byte-level mutations.  Domain of the model (see the header of
    Model/Smart.v): no byte that Python's int() accepts beyond digits (sign, whitespace, "_",
    "x") occurs anywhere in lp/ck streams; in v3 streams only framing bytes are mutated
    (version marker, part-kind bytes - never to b"s" -, one-byte parts, truncation), because
    bencode payloads are opaque to the model."""
    P = _P()
    if kind == "lp":
        s = P.SmartProtocolBase()._encode_bulk_data(rbytes(rng, rng.randint(0, 12), RAW_ALPHA))
        s += rbytes(rng, rng.choice([0, 0, 3]), RAW_ALPHA)
    elif kind == "ck":
        cs = [rbytes(rng, rng.randint(0, 6), RAW_ALPHA) for _ in range(rng.randint(0, 3))]
        err = None if rng.random() < 0.6 else [rbytes(rng, rng.randint(0, 4), RAW_ALPHA)]
        s = real_encode_stream(cs, err) + rbytes(rng, rng.choice([0, 0, 3]), RAW_ALPHA)
    else:
        parts = gen_p3_parts(rng, 6)
        pieces = [(P.MESSAGE_VERSION_THREE, "marker")] if rng.random() < 0.5 else []
        hb = bencode(dict(gen_headers(rng)))
        pieces.append((len(hb).to_bytes(4, "big") + hb, "fixed"))
        for p in parts:
            if p[0] == "o":
                pieces += [(b"o", "kind"), (p[1], "byte")]
            elif p[0] == "b":
                pieces += [(b"b", "kind"), (len(p[1]).to_bytes(4, "big") + p[1], "fixed")]
            else:
                sb = bencode(list(p[1]))
                pieces += [(b"s", "kind"), (len(sb).to_bytes(4, "big") + sb, "fixed")]
        pieces.append((b"e", "kind"))
        for _ in range(rng.choice([0, 1, 1, 2])):
            i = rng.randrange(len(pieces))
            data, tag = pieces[i]
            if tag == "kind":
                pieces[i] = (bytes([rng.choice(b"obeXoe\x00b")]), tag)
            elif tag == "byte":
                pieces[i] = (bytes([rng.choice(b"SEC\x00s")]), tag)
            elif tag == "marker":
                pieces[i] = (_mutate(rng, data), tag)
        s = b"".join(d for d, _ in pieces)
        if rng.random() < 0.3:
            s = s[:rng.randrange(len(s) + 1)]
        return s[:120]
    for _ in range(rng.choice([0, 1, 1, 2])):
        s = _mutate(rng, s)
    return s[:90]


def gen_e2e(rng, tier):
    n = 60 if tier == "quick" else 1500
    for i in range(n):
        v = [1, 2, 3][i % 3]
        reqs = []
        for _ in range(rng.choice([1, 1, 2, 3])):
            args = gen_args(rng)
            offsets = None
            body = None
            r = rng.random()
            if r < 0.4:
                body = gen_body(rng, 40)
            elif r < 0.55:
                offsets = [[rng.choice([0, 1, 9, 10, 99, 12345, 2 ** 31]), rng.choice([0, 1, 7, 100])]
                           for _ in range(rng.randint(0, 4))]
            resp = {"ok": rng.random() < 0.8, "args": [b"ok"] + gen_args(rng), "kind": "none"}
            if v == 1 and not resp["ok"]:
                resp["args"][0] = b"NoSuchFile"       # v1 has no status byte: failure = known error code
            elif v == 1:
                resp["args"][0] = b"ok"
            r = rng.random()
            if resp["ok"] and r < 0.4:
                resp.update(kind="body", body=gen_body(rng, 40))
            elif resp["ok"] and r < 0.75 and v >= 2:
                resp.update(kind="stream", chunks=[c for c in gen_chunks(rng, 20)], err=gen_err(rng))
                if v == 3 and resp["err"] is not None and not resp["err"]:
                    resp["err"] = [b"error"]
                if v == 3:
                    resp["chunks"] = [c for c in resp["chunks"]]
            reqs.append({"args": args, "body": body, "offsets": offsets, "resp": resp})
        short = None
        if rng.random() < 0.5:
            short = [rng.choice([0, 1, 2, 4999, rng.randint(0, 50)]) for _ in range(600)]
        yield {"kind": "e2e", "version": v, "requests": reqs, "short": short}


def gen_e2e_big(rng, tier):
    """Whole requests / responses of v1, v2, v3 with a body, a response body or a streamed chunk just
    below / at / above every size threshold, and one a few times larger."""
    sizes = BIG_SIZES if tier != "quick" else [MAX_READ, MAX_READ + 1, BUFFER_SIZE - 60, BUFFER_SIZE,
                                               BUFFER_SIZE + 1, 3 * BUFFER_SIZE + 5]
    for v in (1, 2, 3):
        for i, size in enumerate(sizes):
            big = {"rle": rle_of(size, i)}
            ok = [b"ok"]
            none = {"ok": True, "args": ok, "kind": "none"}
            shapes = [{"args": [b"a"], "body": big, "offsets": None, "resp": none},
                      {"args": [b"a"], "body": None, "offsets": None,
                       "resp": {"ok": True, "args": ok, "kind": "body", "body": big}}]
            if v >= 2:
                shapes.append({"args": [b"a"], "body": b"x", "offsets": None,
                               "resp": {"ok": True, "args": ok, "kind": "stream",
                                        "chunks": [b"ab", big, b""], "err": [b"error", b"late"] if i % 2 else None}})
            for sh in shapes:
                follow = {"args": [b"next"], "body": None, "offsets": None, "resp": none}
                yield {"kind": "e2e", "version": v, "requests": [sh, follow] if i % 2 else [sh], "short": None}


def oracle_e2e(inp, obs):
    """C29 and C30 on whole messages: what the server handler received and what the client
    decoded are what was sent; nobody asked a pipe for more bytes than the message has."""
    if isinstance(obs, list) and obs and obs[0] == "would-block":
        return f"a read of {obs[1]} bytes was requested when only {obs[2]} bytes of the message remain (blocks on a pipe)"
    P = _P()
    inp = norm_e2e(inp)
    for r, got, dec in zip(inp["requests"], obs["server_got"], obs["client"]):
        if got[0] != list(r["args"]):
            return f"server received args {got[0]!r}, sent {r['args']!r}"
        if r.get("offsets") is not None:
            want = P.SmartProtocolBase()._serialise_offsets([tuple(o) for o in r["offsets"]])
            if got[1] != want or _deser(got[1]) != [list(o) for o in r["offsets"]]:
                return f"server received readv body {got[1]!r} for offsets {r['offsets']!r}"
        elif r["body"] is not None and got[1] != small(r["body"]):
            return f"server received body {got[1]!r}, sent {small(r['body'])!r}"
        resp = r["resp"]
        if dec.get("decode_error"):
            return f"client could not decode the response {resp!r}: {dec['decode_error']}"
        if dec["args"] != list(resp["args"]) or dec["ok"] != resp["ok"]:
            return f"client decoded {dec['ok']}/{dec['args']!r}, server sent {resp['ok']}/{resp['args']!r}"
        if resp["kind"] == "body" and dec.get("body") != small(resp["body"]):
            return f"client decoded body {dec.get('body')!r}, server sent {small(resp['body'])!r}"
        if resp["kind"] == "stream":
            if dec.get("chunks") != [small(c) for c in resp["chunks"]]:
                return f"client decoded chunks {dec.get('chunks')!r}, server sent {[small(c) for c in resp['chunks']]!r}"
            if dec.get("err") != resp["err"]:
                return f"client decoded stream error {dec.get('err')!r}, server sent {resp['err']!r}"
        if dec["left"] != 0:
            return f"{dec['left']} bytes of the response were never read"
    if obs["server_left"] != 0:
        return f"{obs['server_left']} request bytes were never read by the server"
    return None


def is_stream_error_before_first_chunk(inp):
    """The class of inputs of the former finding C29-v3-stream-error-before-first-chunk
    (repaired in /repo by 737004f; kept for the distribution histogram only)."""
    return (inp.get("kind") == "e2e" and inp["version"] == 3 and
            any(r["resp"]["kind"] == "stream" and not r["resp"]["chunks"] and r["resp"]["err"] is not None
                for r in inp["requests"]))


E2E_WITNESS = {"kind": "e2e", "version": 3, "short": None, "requests": [
    {"args": [b"a"], "body": None, "offsets": None,
     "resp": {"ok": True, "args": [b"ok"], "kind": "stream", "chunks": [], "err": [b"error", b"boom"]}}]}
